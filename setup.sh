#!/bin/bash
# setup_cmd: build everything the checks need from files on disk only (offline).
set -e
cd "$(dirname "$0")"
export CARGO_NET_OFFLINE=true
mkdir -p .build evidence replays
python3-vt - <<'PY'
from vf import build
build.harness("release"); build.harness("ovf"); build.cli("release"); build.cli("ovf"); build.shim()
print("setup: harness(release, ovf), sfs(release, ovf), shim built")
PY
python3-vt -m vf.selftest
