#!/bin/bash
# tools/thorough_all.sh [seed] [ids...] -- run thorough checks one after another, printing verdict line and wall time
cd "$(dirname "$0")/.."
seed=${1:-1}; shift
ids=${@:-$(python3 -c "import json; print(' '.join(c['property_id'] for c in json.load(open('MANIFEST.json'))['checks']))")}
export VERIF_OUT_DIR=${VERIF_OUT_DIR:-$PWD/.build/thorough-out}
for id in $ids; do
  t0=$(date +%s)
  out=$(VERIF_SEED=$seed ./check $id thorough 2>&1); rc=$?
  echo "THOROUGH seed=$seed $id rc=$rc $(( $(date +%s) - t0 ))s $(echo "$out" | grep -m1 '^\[')"
  if [ $rc -ne 0 ]; then echo "$out" | grep -E "VIOLATION|INCONCLUSIVE|^    \[|inconclusive" | head -8 | cut -c1-500; fi
  python3 -c "
import json,sys
try:
    e=json.load(open('$VERIF_OUT_DIR/evidence/$id.json'))
    print('   sanitizers:', json.dumps(e['coverage'].get('sanitizers'))[:600])
except Exception as x: print('   (no evidence)', x)
"
done
echo THOROUGH-DONE
