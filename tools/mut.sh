#!/bin/bash
# tools/mut.sh <patch.diff> <ID> [quick|thorough]  -- apply a seeded change to /repo, run one check, undo the change.
# (development aid; never run while another check is using /repo)
set -u
diff=$(realpath $1); id=$2; tier=${3:-quick}
cd /repo || exit 2
if ! git diff --quiet; then echo "/repo has uncommitted changes; refusing"; exit 2; fi
git apply "$diff" || { echo "APPLY FAILED"; exit 3; }
cd /verif
mkdir -p .build/mut-evidence
cp evidence/$id.json .build/mut-evidence/$id.saved 2>/dev/null
./check $id $tier; rc=$?
cp .build/mut-evidence/$id.saved evidence/$id.json 2>/dev/null
git -C /repo checkout -- . 
echo "MUT-RESULT diff=$diff check=$id tier=$tier exit=$rc"
exit 0
