#!/bin/bash
# tools/silence.sh <tier> <seed>...   -- run every registered check at the given seeds on the unchanged tree; any non-zero exit is reported
cd "$(dirname "$0")/.."
tier=$1; shift
export VERIF_OUT_DIR=${VERIF_OUT_DIR:-$PWD/.build/silence-out}
fail=0
for seed in "$@"; do
  for id in $(python3 -c "import json; print(' '.join(c['property_id'] for c in json.load(open('MANIFEST.json'))['checks']))"); do
    t0=$(date +%s)
    out=$(VERIF_SEED=$seed ./check $id $tier 2>&1); rc=$?
    echo "seed=$seed $id rc=$rc $(( $(date +%s) - t0 ))s $(echo "$out" | grep -m1 '^\[')"
    if [ $rc -ne 0 ]; then fail=1; echo "$out" | grep -E "VIOLATION|INCONCLUSIVE|^    \[|inconclusive" | head -8 | cut -c1-400; fi
  done
done
echo "SILENCE-DONE fail=$fail"
