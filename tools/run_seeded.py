#!/usr/bin/env python3
"""Runs every seeded change in /verif/seeded against its property's check (and optionally others) on a
SCRATCH worktree of /repo (never on /repo itself), and records which checks catch which changes.

usage: tools/run_seeded.py [--tier quick] [--only C01-a,C02-b] [--extra C01:C09-b,...]
Writes seeded/RESULTS.json. The scratch worktree and its build output are removed at the end.
"""
import json, os, subprocess, sys, shutil, time, glob
V = os.path.dirname(os.path.dirname(os.path.abspath(__file__)))
SCRATCH = os.environ.get("SEEDED_SCRATCH", "/tmp/sfs-seeded-wt")
OUTDIR = os.path.join(V, ".build", "seeded-out")
tier = "quick"
only = None
extra = {}
args = sys.argv[1:]
while args:
    a = args.pop(0)
    if a == "--tier":
        tier = args.pop(0)
    elif a == "--only":
        only = set(args.pop(0).split(","))
    elif a == "--extra":
        for item in args.pop(0).split(","):
            chk, mid = item.split(":")
            extra.setdefault(mid, []).append(chk)


def sh(cmd, **kw):
    return subprocess.run(cmd, shell=True, stdout=subprocess.PIPE, stderr=subprocess.STDOUT, text=True, **kw)


sh("git -C /repo worktree remove --force %s" % SCRATCH)
shutil.rmtree(SCRATCH, ignore_errors=True)
r = sh("git -C /repo worktree add --detach %s HEAD" % SCRATCH)
assert r.returncode == 0, r.stdout
env = dict(os.environ, SFS_REPO=SCRATCH, VERIF_OUT_DIR=OUTDIR)
results = json.load(open(os.path.join(V, "seeded", "RESULTS.json"))) if os.path.exists(os.path.join(V, "seeded", "RESULTS.json")) else {}
try:
    for d in sorted(glob.glob(os.path.join(V, "seeded", "*", "patch.diff"))):
        mid = os.path.basename(os.path.dirname(d))
        if only and mid not in only:
            continue
        prop = json.load(open(os.path.join(os.path.dirname(d), "meta.json")))["property"]
        checks = [prop] + extra.get(mid, [])
        a = sh("git -C %s apply %s" % (SCRATCH, d))
        if a.returncode != 0:
            results.setdefault(mid, {})["apply"] = "FAILED: " + a.stdout[-300:]
            print(mid, "apply failed")
            continue
        for chk in checks:
            t0 = time.time()
            r = subprocess.run([os.path.join(V, "check"), chk, tier], env=env, stdout=subprocess.PIPE, stderr=subprocess.STDOUT, text=True)
            viol = [l for l in r.stdout.splitlines() if l.startswith("VIOLATION")]
            first = next((l.strip() for l in r.stdout.splitlines() if l.startswith("    [")), "")
            results.setdefault(mid, {})[chk] = {"tier": tier, "exit": r.returncode, "detected": r.returncode == 1 and bool(viol), "first_report": first[:400],
                                                 "wall_s": round(time.time() - t0, 1)}
            print(mid, chk, "exit", r.returncode, "DETECTED" if viol else "missed", first[:150], flush=True)
        sh("git -C %s checkout -- . && git -C %s clean -fdq" % (SCRATCH, SCRATCH))
        json.dump(results, open(os.path.join(V, "seeded", "RESULTS.json"), "w"), indent=1, sort_keys=True)
finally:
    sh("git -C /repo worktree remove --force %s" % SCRATCH)
    shutil.rmtree(SCRATCH, ignore_errors=True)
    suffix = "-" + __import__("hashlib").sha1(os.path.realpath(SCRATCH).encode()).hexdigest()[:8]
    for name in ("cli-release", "cli-ovf", "harness", "alt"):
        shutil.rmtree(os.path.join(V, ".build", name + suffix), ignore_errors=True)
    shutil.rmtree(OUTDIR, ignore_errors=True)
