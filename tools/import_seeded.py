#!/usr/bin/env python3
"""Development aid: import confirmed sub-agent changes from <dir>/<PROP>/out into seeded/<PROP>-<suffix>.
usage: tools/import_seeded.py /tmp/mut2 c d      (a.diff -> -c, b.diff -> -d)"""
import json, os, shutil, glob, sys
base, sa, sb = sys.argv[1], sys.argv[2], sys.argv[3]
V = os.path.dirname(os.path.dirname(os.path.abspath(__file__)))
logs = {}
for f in glob.glob(os.path.join(base, 'logs', 'C*.log')):
    for l in open(f):
        p = l.split()
        if len(p) > 3 and p[1] in ('a', 'b') and '=' in p[2]:
            logs[(p[0], p[1])] = dict(x.split('=') for x in p[2:] if '=' in x)
n = 0
for prop in sorted({k[0] for k in logs}):
    meta = json.load(open(os.path.join(base, prop, 'out', 'meta.json')))
    for ch in meta['changes']:
        v = ch['name']
        lg = logs.get((prop, v))
        if not lg:
            continue
        ok = int(lg['tests_failed'] or 0) == 0 and int(lg['tests_passed'] or 0) >= 90 and int(lg['demo_pristine_exit']) == 0 and int(lg['demo_mutant_exit']) != 0
        if not ok:
            print("NOT CONFIRMED", prop, v, lg)
            continue
        d = os.path.join(V, 'seeded', '%s-%s' % (prop, sa if v == 'a' else sb))
        os.makedirs(d, exist_ok=True)
        shutil.copy(os.path.join(base, prop, 'out', v + '.diff'), os.path.join(d, 'patch.diff'))
        for f in glob.glob(os.path.join(base, prop, 'out', 'demo_%s.*' % v)):
            shutil.copy(f, os.path.join(d, os.path.basename(f)))
        json.dump({"id": os.path.basename(d), "property": prop, "files": ch.get('files'), "what": ch.get('what'),
                   "needs_to_manifest": ch.get('needs_to_manifest'), "demo": ch.get('demo'),
                   "author": "independent sub-agent, later round (told which ideas had already been tried and asked for subtler changes) given only the property text and a scratch worktree",
                   "author_verification": ch.get('how_verified'),
                   "confirmed_by_me": {"base_commit": lg.get('base', 'HEAD of /repo at import time'), "how": "applied patch.diff in a scratch worktree; cargo test --workspace --no-fail-fast --offline; ran the demo on the pristine and on the patched tree",
                                       "tests_passed": int(lg['tests_passed']), "tests_failed": int(lg['tests_failed']),
                                       "demo_exit_pristine": int(lg['demo_pristine_exit']), "demo_exit_patched": int(lg['demo_mutant_exit'])},
                   "detected_by": []}, open(os.path.join(d, 'meta.json'), 'w'), indent=1)
        n += 1
print("imported", n)
