#!/usr/bin/env python3
"""Regenerates the generated tables of DESIGN.md (between <!-- BEGIN:x --> / <!-- END:x --> markers) from
git history of /repo, known_findings.json and seeded/RESULTS.json."""
import json, os, re, subprocess, glob
V = os.path.dirname(os.path.dirname(os.path.abspath(__file__)))
s = open(os.path.join(V, "DESIGN.md")).read()
log = subprocess.run(['git', '-C', '/repo', 'log', '--reverse', '--format=%h|%s'], capture_output=True, text=True).stdout.splitlines()
fixes = [l.split('|', 1) for l in log if l.split('|', 1)[1].startswith('fix:')]
which = {"allele index": "C08 (C01)", "shorter than six": "C17 (short inputs)", "npy writer panicked": "C15 (residue 54 mod 64), C17", "hypergeometric": "C03 (pmf N>=1030), C02 cohorts",
         "get_axis": "C19", "AxisIter": "C19", "view iterator": "C19", "flush stdout": "C18 (S: write fault on stdout)", "more than one population": "C17 (sample lists)",
         "degenerate (one- or two-entry)": "C17 (statistic x shape grid, overflow-checked binary)", "reject empty spectra": "C17 (absurd shapes)",
         "read-ahead": "C18 (first-chunk enumeration), C12 (dribbled stdin)", "precisions above": "C17 (option bounds)", "wraps around": "C17 (option bounds), C02",
         "stride computation": "C17 (absurd shapes, overflow-checked binary)", "ends inside a record": "C10 (fault enumeration: truncated-lenprefix)",
         "header length field": "C17 (absurd shapes: thousands of axes)", "too large to allocate": "C17 (dozens of populations)",
         "failing write to stderr": "C17 (stderr -> /dev/full)", "absurd --threads": "C17 (option bounds)", "--debug argument dump": "C17 (stderr -> /dev/full)",
         "sample count differs": "C01 (BCF records with fewer sample columns than the header)"}
t = "| commit | what failed before | property / check that shows it |\n|---|---|---|\n"
for h, m in fixes:
    t += "| `%s` | %s | %s |\n" % (h, m[5:], next((v for k, v in which.items() if k in m), ""))
K = json.load(open(os.path.join(V, 'known_findings.json')))['findings']
o = "| id | property | what fails | why not repaired |\n|---|---|---|---|\n"
for f in K:
    if f['status'] == 'open':
        o += "| %s | %s | %s | dependency code (noodles-bcf 0.32, pinned by Cargo.lock; no other version in the offline registry) |\n" % (f['id'], f['property'], f['what'].replace('|', '\\|'))
R = json.load(open(os.path.join(V, 'seeded', 'RESULTS.json')))
BEFORE = {}
for fn in ('RESULTS_round2_before_strengthening.json', 'RESULTS_round3_before_strengthening.json', 'RESULTS_round4_before_strengthening.json', 'RESULTS_round5_before_strengthening.json', 'RESULTS_round6_before_strengthening.json', 'RESULTS_round7_before_strengthening.json', 'RESULTS_round8_before_strengthening.json', 'RESULTS_round9_before_strengthening.json', 'RESULTS_round10_before_strengthening.json'):
    try:
        BEFORE.update(json.load(open(os.path.join(V, 'seeded', fn)))['results'])
    except OSError:
        pass
c = "| change | needs to manifest | caught by (first report) | before strengthening |\n|---|---|---|---|\n"
for mid in sorted(R):
    m = json.load(open(os.path.join(V, 'seeded', mid, 'meta.json')))
    det = [(k, v) for k, v in R[mid].items() if isinstance(v, dict)]
    need = (m.get('needs_to_manifest') or m.get('what') or '')[:170].replace('|', '\\|').replace('\n', ' ')
    rep = "; ".join("%s: %s" % (k, ("yes - " + v['first_report'][:110].replace('|', '\\|')) if v['detected'] else "MISSED") for k, v in det)
    b = BEFORE.get(mid)
    before = "-" if b is None else ("caught" if any(isinstance(v, dict) and v.get('detected') for v in b.values()) else "MISSED")
    c += "| %s | %s | %s | %s |\n" % (mid, need, rep, before)
n_total = len(R)
n_det = sum(1 for r in R.values() if any(isinstance(v, dict) and v.get('detected') for v in r.values()))
nb = sum(1 for b in BEFORE.values() if any(isinstance(v, dict) and v.get('detected') for v in b.values()))
c += "\n%d of %d seeded changes are caught by the check of the property they were written against (quick tier, seed 1). Rounds two to ten (ids -c/-d ... -o/-p, -q, -r): %d of %d were caught by the machinery as it stood before the respective round was known; the rest were caught after the strengthening described below.\n" % (n_det, n_total, nb, len(BEFORE))
for name, body in (("fix-table", t), ("open-table", o), ("seeded-table", c)):
    pat = re.compile(r"<!-- BEGIN:%s -->.*?<!-- END:%s -->" % (name, name), re.S)
    assert pat.search(s), name
    s = pat.sub(lambda _m: "<!-- BEGIN:%s -->\n%s<!-- END:%s -->" % (name, body, name), s)
open(os.path.join(V, "DESIGN.md"), "w").write(s)
print("DESIGN.md tables regenerated: %d fixes, %d open, %d seeded" % (len(fixes), sum(1 for f in K if f['status'] == 'open'), n_total))
