#!/usr/bin/env python3
"""Regenerates MANIFEST.json from the table below (run from /verif). A property is claimed only
when vf/monitors/<id>.py exists; the others are listed under not_applicable with the reason."""
import json, os, subprocess
V = os.path.dirname(os.path.dirname(os.path.abspath(__file__)))
props = [json.loads(l) for l in open(os.path.join(V, "properties.jsonl"))]

T = {
 "C01": ("exploration", "reference-model monitor: exact reference count recomputed from the genotypes (Python ints) compared with site::Reader events (L1), the real VCF/BCF parse (L2, hook) and the binary's stdout; metamorphic junk-column twins", "7/C01"),
 "C02": ("exploration", "reference-model monitor: exact rational hypergeometric sums (Fractions) vs per-record contribution vectors (L1) and printed spectra (C) over enumerated projection targets incl. t=m boundaries", "7/C02"),
 "C03": ("exploration", "reference-model monitor on Spectrum::project: every operator coefficient vs exact pmf on a shape grid and large one-axis sizes, plus algebraic laws between recorded results", "7/C03"),
 "C04": ("exploration", "reference-model monitor: pure-Python/numpy axis sums vs Spectrum::marginalize for every axis subset in every order; CLI -m/-M relations", "7/C04"),
 "C05": ("exploration", "reference-model monitor: fold rule from the statement on all small shapes, exact on dyadic data; mass/idempotence/mirror laws", "7/C05"),
 "C06": ("exploration", "reference-model monitor: statistics recomputed from genotypes and from the published estimator formulas (Fractions) vs `create | stat` output", "7/C06"),
 "C07": ("exploration", "round-trip monitor with exact decimal/binary reasoning (Fractions) and numpy as reference npy reader", "7/C07"),
 "C08": ("exploration", "exhaustive enumeration of the GT alphabet, each string in its own one-record run through the VCF and BCF paths, classified by the reference table", "7/C08"),
 "C09": ("exploration", "reference-model + metamorphic monitor: permutations of columns / list entries / labels, --samples vs --samples-file", "7/C09"),
 "C10": ("fault_enumeration", "conservation / exactly-once monitor over the program's own skip log; failing record placed at every position of the stream in every container", "7/C10"),
 "C11": ("exploration", "replica monitor: long-lived site::Reader vs a fresh reader per record over random, cohort and swing histories; concatenation/permutation at the CLI", "7/C11"),
 "C12": ("exploration", "differential monitor: byte equality across container x transport x threads x BGZF layout x repetition; ThreadSanitizer binary and Miri many-seeds as race detectors", "7/C12"),
 "C13": ("exploration", "differential monitor: combined `view` invocation vs chain of single-option invocations through lossless npy pipes", "7/C13"),
 "C14": ("exploration", "metamorphic monitor: algebraic relations between recorded statistic values under fold/transpose/scale/monomorphic edits", "7/C14"),
 "C15": ("exploration", "conformance monitor: NEP-1 parser written from the spec + numpy as reference reader/writer; every header-length residue mod 64; dtype x order x version matrix", "7/C15"),
 "C16": ("fault_enumeration", "every truncation offset / extension / token edit of generated files must be rejected (L and binary); AddressSanitizer pass", "7/C16"),
 "C17": ("exploration", "exit-status/panic/signal classifier over hostile corpora on the release and overflow-checked binaries; ASan and Miri sub-monitors", "7/C17"),
 "C18": ("fault_enumeration", "planned BufRead/Write adapters (L, via hook) and LD_PRELOAD syscall shim (S): every first-chunk length and every fault offset vs all-at-once baseline", "7/C18"),
 "C19": ("exploration", "reference-model monitor: row-major enumeration (itertools) vs the array/view/iterator API on every shape in the bound, release and overflow-checked builds, call histories continued past exhaustion", "7/C19"),
}
NOTE = {
 "default": "Decides only the executions it produced: inputs from this project's generators within the stated bounds, on this machine's release and checked builds of the current tree (checked = integer overflow traps plus debug assertions in the sfs crates, which turn on the standard library's precondition checks of unsafe functions; a quarter of the binary's runs and the end-of-shard audit pass - a sample of harness requests answered again in other orders - use it), each shard on its own seeded subset of the CPUs. Trusted base: the Python oracles in vf/oracle (written from the statements, cross-checked against each other), the harness drivers, numpy/CPython arithmetic.",
}
checks, na = [], []
for p in props:
    pid = p["id"]
    if os.path.exists(os.path.join(V, "vf", "monitors", pid.lower() + ".py")):
        level, tech, ref = T[pid]
        checks.append({
            "property_id": pid,
            "quick_cmd": "./check %s quick" % pid,
            "thorough_cmd": "./check %s thorough" % pid,
            "evidence_file": "/verif/evidence/%s.json" % pid,
            "replay_cmd_template": "./check %s --replay {path}" % pid,
            "engine": "vf.monitors.%s" % pid.lower(),
            "level_claimed": {"category": level, "text": "Runtime monitoring: held on the K executions reported in the evidence (never 'verified'). " + tech, "design_ref": "DESIGN.md section " + ref},
            "level_note": NOTE["default"],
            "technique": "runtime monitoring: " + tech.split(":")[0],
        })
    else:
        na.append({"property_id": pid, "reason": "monitor designed (DESIGN.md 7/%s) but not yet built in this session; no claim is made until its check exists and is silent on the unchanged tree" % pid})
hooks = subprocess.run(["git", "-C", "/repo", "log", "--format=%H %s"], capture_output=True, text=True).stdout.splitlines()
hook_commits = [l.split()[0] for l in hooks if l.split()[1:3] == ["verif", "hook:"]]
m = {
 "version": 1,
 "setup_cmd": "./setup.sh",
 "hooks": {"guard": "cargo feature `verif` on sfs-core (off by default; sfs-cli never enables it)",
           "enable": "the harness crate /verif/harness depends on sfs-core with features=[\"verif\"] through the symlink .build/repo -> /repo; the sfs binary itself is always built WITHOUT the feature",
           "baseline_off_cmd": "cd /repo && cargo test --workspace --no-fail-fast --offline",
           "source_commits": hook_commits, "add_only": True},
 "engines": [
   {"name": "vharness", "path": "harness/", "serves_properties": sorted(T), "kind_free_text": "Rust drivers + recorders over the public sfs-core API (JSONL events); no verdict logic"},
   {"name": "failio shim", "path": "shim/failio.c", "serves_properties": ["C12", "C18"], "kind_free_text": "LD_PRELOAD read/write interposer: chunk schedules, short writes, errno injection, delays, log"},
   {"name": "monitors", "path": "vf/", "serves_properties": sorted(T), "kind_free_text": "Python generators, reference oracles and offline checkers over the recorded events; ./check <ID> <tier>"},
 ],
 "checks": checks,
 "not_applicable": na,
 "notes": "Exit 0 = held on everything observed (KNOWN-FINDING lines possible), 1 = VIOLATION property=<id> replay=<path>, 2 = INCONCLUSIVE (build failure or too little observed). VERIF_SEED selects the workload; known_findings.json lists genuine defects (open/fixed).",
}
json.dump(m, open(os.path.join(V, "MANIFEST.json"), "w"), indent=1)
import jsonschema
jsonschema.validate(m, json.load(open(os.path.join(V, "schemas", "MANIFEST.schema.json"))))
print("MANIFEST.json: %d checks, %d not_applicable" % (len(checks), len(na)))
