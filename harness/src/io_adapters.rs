//! Planned readers and writers: they control how the byte stream is cut into calls and where it
//! fails, and they record what the callee actually did (so a monitor can tell whether a fault was
//! really delivered before demanding that the operation fails).

use std::{
    io::{self, BufRead, Read, Write},
    sync::{Arc, Mutex},
};

use serde_json::{json, Value};

#[derive(Default, Debug)]
pub struct Stats {
    /// Lengths of the non-empty chunks handed to the callee, in order (capped).
    pub chunk_lens: Vec<usize>,
    pub chunks_total: usize,
    pub bytes_consumed: usize,
    pub fault_delivered: bool,
    pub eof_seen: bool,
}

impl Stats {
    pub fn to_json(&self) -> Value {
        json!({
            "first_chunks": self.chunk_lens,
            "chunks": self.chunks_total,
            "consumed": self.bytes_consumed,
            "fault_delivered": self.fault_delivered,
            "eof_seen": self.eof_seen,
        })
    }
}

#[derive(Debug, Clone)]
pub struct ReadPlan {
    /// Lengths of the first chunks.
    pub chunks: Vec<usize>,
    /// Length of every later chunk (usize::MAX = everything that is left).
    pub rest: usize,
    /// Fail when the callee asks for the byte at this offset.
    pub fail_at: Option<usize>,
    pub fail_kind: String,
    /// "sticky": every later call fails too; "once-eof": fails once, then reports end of input (a reset connection);
    /// "once-continue": fails once, then carries on with the remaining bytes (a transient error).
    pub fail_mode: String,
}

pub fn error_of(kind: &str) -> io::Error {
    let k = match kind {
        "BrokenPipe" => io::ErrorKind::BrokenPipe,
        "ConnectionReset" => io::ErrorKind::ConnectionReset,
        "InvalidData" => io::ErrorKind::InvalidData,
        "PermissionDenied" => io::ErrorKind::PermissionDenied,
        "TimedOut" => io::ErrorKind::TimedOut,
        "UnexpectedEof" => io::ErrorKind::UnexpectedEof,
        "Interrupted" => io::ErrorKind::Interrupted,
        "WouldBlock" => io::ErrorKind::WouldBlock,
        _ => io::ErrorKind::Other,
    };
    io::Error::new(k, "injected fault")
}

/// A `BufRead` over in-memory bytes that exposes them chunk by chunk according to a plan.
pub struct PlanReader {
    data: Vec<u8>,
    plan: ReadPlan,
    /// Offset of the first byte not yet consumed.
    pos: usize,
    /// End of the currently exposed chunk.
    chunk_end: usize,
    next_chunk: usize,
    failed_once: bool,
    stats: Arc<Mutex<Stats>>,
}

impl PlanReader {
    pub fn new(data: Vec<u8>, plan: ReadPlan, stats: Arc<Mutex<Stats>>) -> Self {
        Self {
            data,
            plan,
            pos: 0,
            chunk_end: 0,
            next_chunk: 0,
            failed_once: false,
            stats,
        }
    }
}

impl BufRead for PlanReader {
    fn fill_buf(&mut self) -> io::Result<&[u8]> {
        if self.pos == self.chunk_end {
            // Need a new chunk.
            if let Some(fail_at) = self.plan.fail_at {
                if self.pos >= fail_at {
                    if self.failed_once && self.plan.fail_mode == "once-eof" {
                        self.stats.lock().unwrap().eof_seen = true;
                        return Ok(&[]);
                    }
                    if self.failed_once && self.plan.fail_mode == "once-continue" {
                        self.plan.fail_at = None;
                    } else {
                        self.failed_once = true;
                        self.stats.lock().unwrap().fault_delivered = true;
                        return Err(error_of(&self.plan.fail_kind));
                    }
                }
            }
            if self.pos >= self.data.len() {
                self.stats.lock().unwrap().eof_seen = true;
                return Ok(&[]);
            }
            let want = match self.plan.chunks.get(self.next_chunk) {
                Some(&n) => n.max(1),
                None => self.plan.rest.max(1),
            };
            self.next_chunk += 1;
            let mut end = self.pos.saturating_add(want).min(self.data.len());
            if let Some(fail_at) = self.plan.fail_at {
                end = end.min(fail_at);
            }
            self.chunk_end = end;
            let mut st = self.stats.lock().unwrap();
            st.chunks_total += 1;
            if st.chunk_lens.len() < 8 {
                st.chunk_lens.push(end - self.pos);
            }
        }
        Ok(&self.data[self.pos..self.chunk_end])
    }

    fn consume(&mut self, amt: usize) {
        let amt = amt.min(self.chunk_end - self.pos);
        self.pos += amt;
        self.stats.lock().unwrap().bytes_consumed += amt;
    }
}

impl Read for PlanReader {
    fn read(&mut self, buf: &mut [u8]) -> io::Result<usize> {
        if buf.is_empty() {
            return Ok(0);
        }
        let n = {
            let src = self.fill_buf()?;
            let n = src.len().min(buf.len());
            buf[..n].copy_from_slice(&src[..n]);
            n
        };
        self.consume(n);
        Ok(n)
    }
}

#[derive(Debug, Clone)]
pub struct WritePlan {
    /// Maximum number of bytes accepted per `write` call, cycled; empty = accept everything.
    pub per_call: Vec<usize>,
    /// Fail the `write` call that would write the byte at this offset.
    pub fail_at: Option<usize>,
    pub fail_kind: String,
}

pub struct PlanWriter {
    plan: WritePlan,
    pub accepted: Vec<u8>,
    pub calls: usize,
    pub fault_delivered: bool,
}

impl PlanWriter {
    pub fn new(plan: WritePlan) -> Self {
        Self {
            plan,
            accepted: Vec::new(),
            calls: 0,
            fault_delivered: false,
        }
    }
}

impl Write for PlanWriter {
    fn write(&mut self, buf: &[u8]) -> io::Result<usize> {
        if buf.is_empty() {
            return Ok(0);
        }
        let mut n = if self.plan.per_call.is_empty() {
            buf.len()
        } else {
            self.plan.per_call[self.calls % self.plan.per_call.len()]
                .max(1)
                .min(buf.len())
        };
        self.calls += 1;
        if let Some(fail_at) = self.plan.fail_at {
            if self.accepted.len() >= fail_at {
                self.fault_delivered = true;
                return Err(error_of(&self.plan.fail_kind));
            }
            n = n.min(fail_at - self.accepted.len());
        }
        self.accepted.extend_from_slice(&buf[..n]);
        Ok(n)
    }

    fn flush(&mut self) -> io::Result<()> {
        Ok(())
    }
}
