//! vharness: drivers and recorders for the runtime monitors in /verif/vf.
//!
//! Reads one JSON request per line on stdin (or from the file given as first argument), executes
//! it against the *real* sfs-core API, and writes one JSON event per line on stdout. No verdicts
//! are taken here; the only thing the harness decides is whether a call panicked (it catches the
//! unwind and records the payload and location).
//!
//! f64 values are recorded as 16-digit hex bit patterns so that nothing is lost in transport.

use std::{
    io::{self, BufRead, Write},
    num::NonZeroUsize,
    panic::{self, AssertUnwindSafe},
    sync::{Arc, Mutex},
};

use serde_json::{json, Value};

use sfs_core::{
    array::{Axis, Shape},
    input::{
        genotype::{self, reader::DynReader, Genotype, Skipped},
        site::{self, reader::builder::Project, reader::builder::Samples, Site},
        sample::Population,
        Input, ReadStatus, Sample,
    },
    spectrum::io::Format,
    Array, Scs,
};

mod io_adapters;
use io_adapters::{PlanReader, PlanWriter, ReadPlan, Stats, WritePlan};

thread_local! {
    static LAST_PANIC: std::cell::RefCell<Option<String>> = std::cell::RefCell::new(None);
}
static OTHER_THREAD_PANIC: Mutex<Option<String>> = Mutex::new(None);

fn install_panic_hook() {
    panic::set_hook(Box::new(|info| {
        let payload = if let Some(s) = info.payload().downcast_ref::<&str>() {
            s.to_string()
        } else if let Some(s) = info.payload().downcast_ref::<String>() {
            s.clone()
        } else {
            "<non-string payload>".to_string()
        };
        let loc = info
            .location()
            .map(|l| format!("{}:{}", l.file(), l.line()))
            .unwrap_or_else(|| "?".into());
        let msg = format!("{payload} @ {loc}");
        if std::thread::current().name() == Some("main") {
            LAST_PANIC.with(|p| *p.borrow_mut() = Some(msg));
        } else {
            *OTHER_THREAD_PANIC.lock().unwrap() = Some(msg);
        }
    }));
}

/// Runs `f`, returning `Err(panic description)` if it unwound.
fn guarded<T>(f: impl FnOnce() -> T) -> Result<T, String> {
    match panic::catch_unwind(AssertUnwindSafe(f)) {
        Ok(v) => Ok(v),
        Err(_) => Err(LAST_PANIC
            .with(|p| p.borrow_mut().take())
            .unwrap_or_else(|| "<panic without hook record>".into())),
    }
}

fn hex(x: f64) -> String {
    format!("{:016x}", x.to_bits())
}

fn hexs<'a>(xs: impl IntoIterator<Item = &'a f64>) -> Value {
    Value::Array(xs.into_iter().map(|x| Value::String(hex(*x))).collect())
}

fn unhex(v: &Value) -> f64 {
    match v {
        Value::String(s) => f64::from_bits(u64::from_str_radix(s, 16).expect("bad f64 hex")),
        Value::Number(n) => n.as_f64().expect("bad number"),
        _ => panic!("bad f64 value {v}"),
    }
}

fn usizes(v: &Value) -> Vec<usize> {
    v.as_array()
        .expect("expected array")
        .iter()
        .map(|x| {
            x.as_u64()
                .map(|u| u as usize)
                .unwrap_or_else(|| panic!("bad usize {x}"))
        })
        .collect()
}

fn bytes_from_hex(s: &str) -> Vec<u8> {
    (0..s.len() / 2)
        .map(|i| u8::from_str_radix(&s[2 * i..2 * i + 2], 16).expect("bad hex"))
        .collect()
}

fn bytes_to_hex(b: &[u8]) -> String {
    let mut s = String::with_capacity(2 * b.len());
    for x in b {
        s.push_str(&format!("{x:02x}"));
    }
    s
}

fn scs_from(req: &Value) -> Result<Scs, String> {
    let shape = usizes(&req["shape"]);
    let data: Vec<f64> = req["data"]
        .as_array()
        .expect("data")
        .iter()
        .map(unhex)
        .collect();
    Scs::new(data, Shape(shape)).map_err(|e| e.to_string())
}

fn scs_json(scs: &Scs) -> Value {
    json!({"shape": scs.shape().0.clone(), "data": hexs(scs.inner().as_slice())})
}

// ---------------------------------------------------------------------------------------------
// In-memory genotype reader (L1): feeds site::Reader without any file format in between.
// ---------------------------------------------------------------------------------------------

struct MemReader {
    samples: Vec<Sample>,
    records: Vec<Vec<u8>>,
    next: usize,
}

fn code_to_result(c: u8) -> genotype::Result {
    match c {
        0 => genotype::Result::Genotype(Genotype::Zero),
        1 => genotype::Result::Genotype(Genotype::One),
        2 => genotype::Result::Genotype(Genotype::Two),
        3 => genotype::Result::Skipped(Skipped::Missing),
        4 => genotype::Result::Skipped(Skipped::Multiallelic),
        _ => genotype::Result::Error(genotype::Error::PloidyError),
    }
}

fn result_to_code(r: &genotype::Result) -> u8 {
    match r {
        genotype::Result::Genotype(Genotype::Zero) => 0,
        genotype::Result::Genotype(Genotype::One) => 1,
        genotype::Result::Genotype(Genotype::Two) => 2,
        genotype::Result::Skipped(Skipped::Missing) => 3,
        genotype::Result::Skipped(Skipped::Multiallelic) => 4,
        genotype::Result::Error(_) => 5,
    }
}

impl genotype::Reader for MemReader {
    fn current_contig(&self) -> &str {
        "m"
    }

    fn current_position(&self) -> usize {
        self.next
    }

    fn read_genotypes(&mut self) -> ReadStatus<Vec<genotype::Result>> {
        if self.next < self.records.len() {
            let r = self.records[self.next]
                .iter()
                .map(|&c| code_to_result(c))
                .collect();
            self.next += 1;
            ReadStatus::Read(r)
        } else {
            ReadStatus::Done
        }
    }

    fn samples(&self) -> &[Sample] {
        &self.samples
    }
}

fn parse_map(v: &Value) -> Option<Samples> {
    v.as_array().map(|list| {
        Samples::List(
            list.iter()
                .map(|pair| {
                    let name = pair[0].as_str().expect("sample name");
                    let pop = match &pair[1] {
                        Value::Null => Population::Unnamed,
                        Value::String(s) => Population::from(Some(s.as_str())),
                        other => panic!("bad population {other}"),
                    };
                    (Sample::from(name), pop)
                })
                .collect(),
        )
    })
}

fn parse_project(v: &Value) -> Option<Project> {
    match v {
        Value::Null => None,
        Value::Array(_) => Some(Project::Shape(Shape(usizes(v)))),
        Value::Object(o) => Some(Project::Individuals(usizes(&o["ind"]))),
        _ => panic!("bad project"),
    }
}

fn build_site_reader(req: &Value, reader: DynReader) -> Result<site::Reader, String> {
    // "setters": the order in which the builder's options are given ("samples-first" default, "project-first",
    // "samples-twice": set, then set again with the same value) - a builder's result must not depend on it
    let builder = match req["setters"].as_str().unwrap_or("samples-first") {
        "project-first" => site::reader::Builder::default()
            .set_project(parse_project(&req["project"]))
            .set_samples(parse_map(&req["map"])),
        "samples-twice" => site::reader::Builder::default()
            .set_samples(parse_map(&req["map"]))
            .set_project(parse_project(&req["project"]))
            .set_samples(parse_map(&req["map"]))
            .set_project(parse_project(&req["project"])),
        _ => site::reader::Builder::default()
            .set_samples(parse_map(&req["map"]))
            .set_project(parse_project(&req["project"])),
    };
    builder.build(reader).map_err(|e| e.to_string())
}

/// Reads one site and records everything observable about it.
/// Returns (event, done).
fn observe_site(reader: &mut site::Reader, scs: Option<&mut Scs>) -> (Value, bool) {
    let zero = reader.create_zero_scs();
    let status = reader.read_site();
    let mut ev = serde_json::Map::new();
    let mut done = false;
    match status {
        ReadStatus::Read(Site::Standard(count)) => {
            ev.insert("k".into(), json!("S"));
            ev.insert("idx".into(), json!(count.0.clone()));
            if let Some(scs) = scs {
                scs[count] += 1.0;
            }
        }
        ReadStatus::Read(Site::Projected(projected)) => {
            ev.insert("k".into(), json!("P"));
            let mut contribution = zero;
            projected.add_unchecked(&mut contribution);
            ev.insert("v".into(), hexs(contribution.inner().as_slice()));
            if let Some(scs) = scs {
                scs.inner_mut()
                    .iter_mut()
                    .zip(contribution.inner().iter())
                    .for_each(|(a, b)| *a += b);
            }
        }
        ReadStatus::Read(Site::InsufficientData) => {
            ev.insert("k".into(), json!("I"));
        }
        ReadStatus::Error(e) => {
            ev.insert("k".into(), json!("E"));
            ev.insert("msg".into(), json!(e.to_string()));
        }
        ReadStatus::Done => {
            ev.insert("k".into(), json!("D"));
            done = true;
        }
    }
    if !done {
        ev.insert("contig".into(), json!(reader.current_contig()));
        ev.insert("pos".into(), json!(reader.current_position()));
        let skipped: Vec<Value> = reader
            .current_skipped_samples()
            .map(|(s, r)| json!([s.as_ref(), r.reason()]))
            .collect();
        ev.insert("skipped".into(), Value::Array(skipped));
    }
    (Value::Object(ev), done)
}

fn op_site_hist(req: &Value) -> Value {
    let samples: Vec<Sample> = req["samples"]
        .as_array()
        .expect("samples")
        .iter()
        .map(|s| Sample::from(s.as_str().unwrap()))
        .collect();
    let records: Vec<Vec<u8>> = req["records"]
        .as_array()
        .expect("records")
        .iter()
        .map(|r| match r {
            Value::String(s) => s.bytes().map(|b| b - b'0').collect(),
            Value::Array(a) => a.iter().map(|x| x.as_u64().unwrap() as u8).collect(),
            _ => panic!("bad record"),
        })
        .collect();
    let fresh = req["fresh"].as_bool().unwrap_or(false);

    let mk = |records: Vec<Vec<u8>>| -> Result<site::Reader, String> {
        build_site_reader(
            req,
            Box::new(MemReader {
                samples: samples.clone(),
                records,
                next: 0,
            }),
        )
    };

    if fresh {
        // One brand-new reader per record: the replica the long-lived reader is compared with.
        let mut events = Vec::new();
        for rec in &records {
            match mk(vec![rec.clone()]) {
                Ok(mut reader) => events.push(observe_site(&mut reader, None).0),
                Err(e) => return json!({"build_err": e}),
            }
        }
        json!({"events": events})
    } else {
        match mk(records) {
            Ok(mut reader) => {
                let mut scs = reader.create_zero_scs();
                let mut events = Vec::new();
                loop {
                    let (ev, done) = observe_site(&mut reader, Some(&mut scs));
                    let is_err = ev["k"] == "E";
                    if done {
                        break;
                    }
                    // "events": false keeps only the accumulated spectrum (long histories) - failing records are still listed
                    if req["events"].as_bool().unwrap_or(true) || is_err {
                        events.push(ev);
                    }
                    // "after_error": "continue" keeps reading behind a record that failed (a library caller may skip it)
                    if is_err && req["after_error"].as_str() != Some("continue") {
                        break;
                    }
                }
                json!({"events": events, "scs": scs_json(&scs)})
            }
            Err(e) => json!({"build_err": e}),
        }
    }
}

// ---------------------------------------------------------------------------------------------
// Byte-level creation (L2): the real format sniffing + noodles parse over a planned reader.
// ---------------------------------------------------------------------------------------------

fn read_plan(req: &Value) -> ReadPlan {
    ReadPlan {
        chunks: if req["chunks"].is_null() {
            Vec::new()
        } else {
            usizes(&req["chunks"])
        },
        rest: req["rest"].as_u64().map(|x| x as usize).unwrap_or(usize::MAX),
        fail_at: req["fail_at"].as_u64().map(|x| x as usize),
        fail_kind: req["fail_kind"].as_str().unwrap_or("Other").to_string(),
        fail_mode: req["fail_mode"].as_str().unwrap_or("sticky").to_string(),
    }
}

fn op_create(req: &Value) -> Value {
    let data = bytes_from_hex(req["data"].as_str().expect("data hex"));
    let stats = Arc::new(Mutex::new(Stats::default()));
    let reader = PlanReader::new(data, read_plan(req), stats.clone());
    let threads = NonZeroUsize::new(req["threads"].as_u64().unwrap_or(1) as usize).unwrap();
    let mode = req["mode"].as_str().unwrap_or("scs");

    let mut out = serde_json::Map::new();
    // "compression": "bgzf" | "none" and "format": "vcf" | "bcf" set the builder options explicitly; absent = auto-detect
    let mut builder = genotype::reader::Builder::default().set_threads(threads);
    match req["compression"].as_str() {
        Some("bgzf") => {
            builder = builder
                .set_compression_method(Some(genotype::reader::builder::CompressionMethod::Bgzf))
        }
        Some("none") => builder = builder.set_compression_method(None),
        _ => (),
    }
    match req["format"].as_str() {
        Some("vcf") => builder = builder.set_format(genotype::reader::builder::Format::Vcf),
        Some("bcf") => builder = builder.set_format(genotype::reader::builder::Format::Bcf),
        _ => (),
    }
    let built = builder.build_from_bufread(reader);

    match built {
        Err(e) => {
            out.insert("err".into(), json!(e.to_string()));
            out.insert("stage".into(), json!("build_genotype_reader"));
        }
        Ok(mut greader) => {
            if mode == "genos" {
                let names: Vec<String> = greader
                    .samples()
                    .iter()
                    .map(|s| s.as_ref().to_string())
                    .collect();
                out.insert("samples".into(), json!(names));
                let mut recs = Vec::new();
                loop {
                    match greader.read_genotypes() {
                        ReadStatus::Read(gs) => {
                            let codes: String =
                                gs.iter().map(|g| (b'0' + result_to_code(g)) as char).collect();
                            recs.push(json!([
                                greader.current_contig(),
                                greader.current_position(),
                                codes
                            ]));
                        }
                        ReadStatus::Error(e) => {
                            out.insert("err".into(), json!(e.to_string()));
                            out.insert(
                                "at".into(),
                                json!(format!(
                                    "{}:{}",
                                    greader.current_contig(),
                                    greader.current_position()
                                )),
                            );
                            break;
                        }
                        ReadStatus::Done => break,
                    }
                }
                out.insert("records".into(), Value::Array(recs));
            } else {
                match build_site_reader(req, greader) {
                    Err(e) => {
                        out.insert("err".into(), json!(e));
                        out.insert("stage".into(), json!("build_site_reader"));
                    }
                    Ok(mut reader) => {
                        // The same loop as cli/src/create/runner.rs, with every step recorded.
                        let mut scs = reader.create_zero_scs();
                        let mut sites = 0usize;
                        let mut skipped = Vec::new();
                        let mut events = Vec::new();
                        let want_events = mode == "sites";
                        loop {
                            let (ev, done) = observe_site(&mut reader, Some(&mut scs));
                            if done {
                                break;
                            }
                            if ev["k"] == "E" {
                                out.insert("err".into(), ev["msg"].clone());
                                out.insert(
                                    "at".into(),
                                    json!(format!(
                                        "{}:{}",
                                        ev["contig"].as_str().unwrap(),
                                        ev["pos"]
                                    )),
                                );
                                break;
                            }
                            if ev["k"] == "I" {
                                skipped.push(json!(format!(
                                    "{}:{}",
                                    ev["contig"].as_str().unwrap(),
                                    ev["pos"]
                                )));
                            }
                            sites += 1;
                            if want_events {
                                events.push(ev);
                            }
                        }
                        out.insert("sites".into(), json!(sites));
                        out.insert("skipped".into(), Value::Array(skipped));
                        if want_events {
                            out.insert("events".into(), Value::Array(events));
                        }
                        if !out.contains_key("err") {
                            out.insert("scs".into(), scs_json(&scs));
                        }
                    }
                }
            }
        }
    }
    let st = stats.lock().unwrap();
    out.insert("io".into(), st.to_json());
    Value::Object(out)
}

// ---------------------------------------------------------------------------------------------
// Spectrum operations (L)
// ---------------------------------------------------------------------------------------------

fn stat_all(scs: &Scs) -> Value {
    // Same dispatch as cli/src/stat.rs `Statistic::calculate`.
    let mut m = serde_json::Map::new();
    let mut put = |name: &str, r: Result<Result<f64, String>, String>| {
        m.insert(
            name.to_string(),
            match r {
                Ok(Ok(x)) => json!({"v": hex(x)}),
                Ok(Err(e)) => json!({"err": e}),
                Err(p) => json!({"panic": p}),
            },
        );
    };
    let e = |r: Result<f64, sfs_core::spectrum::StatisticError>| r.map_err(|e| e.to_string());
    put("d-fu-li", guarded(|| e(scs.d_fu_li())));
    put("d-tajima", guarded(|| e(scs.d_tajima())));
    put("f2", guarded(|| e(scs.clone().into_normalized().f2())));
    put("f3", guarded(|| e(scs.clone().into_normalized().f3())));
    put("f4", guarded(|| e(scs.clone().into_normalized().f4())));
    put("fst", guarded(|| e(scs.clone().into_normalized().fst())));
    put("king", guarded(|| e(scs.king())));
    put("pi", guarded(|| e(scs.pi())));
    put("pi-xy", guarded(|| e(scs.pi_xy())));
    put("r0", guarded(|| e(scs.r0())));
    put("r1", guarded(|| e(scs.r1())));
    put("s", guarded(|| Ok(scs.segregating_sites())));
    put("sum", guarded(|| Ok(scs.sum())));
    put("theta", guarded(|| e(scs.theta_watterson())));
    Value::Object(m)
}

fn op_spec(req: &Value) -> Value {
    let scs = match scs_from(req) {
        Ok(s) => s,
        Err(e) => return json!({"input_err": e}),
    };
    let what = req["do"].as_str().expect("do");
    match what {
        "project" => {
            let to = usizes(&req["to"]);
            match scs.project(Shape(to)) {
                Ok(p) => scs_json(&p),
                Err(e) => json!({"err": format!("{e:?}"), "msg": e.to_string()}),
            }
        }
        "marginalize" => {
            let axes: Vec<Axis> = usizes(&req["axes"]).into_iter().map(Axis).collect();
            match scs.marginalize(&axes) {
                Ok(p) => scs_json(&p),
                Err(e) => json!({"err": format!("{e:?}"), "msg": e.to_string()}),
            }
        }
        "fold" => {
            let fill = unhex(&req["fill"]);
            scs_json(&scs.fold().into_spectrum(fill))
        }
        "normalize" => {
            let mut s = scs.clone();
            s.normalize();
            scs_json(&s)
        }
        "normalize_history" => {
            // normalise at the type level, edit the frequency spectrum in place (every entry times `c`, through IndexMut),
            // normalise again: the second normalisation must act although the value already has the "normalised" type
            let c = unhex(&req["c"]);
            let mut s1 = scs.clone().into_normalized();
            let indices: Vec<Vec<usize>> = s1.inner().iter_indices().collect();
            for idx in indices {
                s1[idx.as_slice()] *= c;
            }
            let s2 = s1.into_normalized();
            json!({"shape": s2.shape().0.clone(), "data": hexs(s2.inner().as_slice())})
        }
        "stats" => stat_all(&scs),
        "write" => {
            let fmt = match req["fmt"].as_str().unwrap() {
                "npy" => Format::Npy,
                _ => Format::Text,
            };
            let precision = req["precision"].as_u64().unwrap_or(6) as usize;
            let plan = WritePlan {
                per_call: if req["per_call"].is_null() {
                    Vec::new()
                } else {
                    usizes(&req["per_call"])
                },
                fail_at: req["fail_at"].as_u64().map(|x| x as usize),
                fail_kind: req["fail_kind"].as_str().unwrap_or("Other").to_string(),
            };
            let mut w = PlanWriter::new(plan);
            let r = sfs_core::spectrum::io::write::Builder::default()
                .set_format(fmt)
                .set_precision(precision)
                .write(&mut w, &scs);
            json!({
                "ok": r.is_ok(),
                "err": r.err().map(|e| e.to_string()),
                "bytes": bytes_to_hex(&w.accepted),
                "calls": w.calls,
                "fault_delivered": w.fault_delivered,
            })
        }
        other => panic!("unknown spec op {other}"),
    }
}

fn op_read_npy(req: &Value) -> Value {
    let data = bytes_from_hex(req["data"].as_str().expect("data hex"));
    let stats = Arc::new(Mutex::new(Stats::default()));
    let reader = PlanReader::new(data, read_plan(req), stats.clone());
    let r = Array::read_npy(reader);
    let io = stats.lock().unwrap().to_json();
    match r {
        Ok(a) => {
            json!({"shape": a.shape().0.clone(), "data": hexs(a.as_slice()), "io": io})
        }
        Err(e) => json!({"err": e.to_string(), "io": io}),
    }
}

fn op_read_file(req: &Value) -> Value {
    let path = req["path"].as_str().expect("path");
    let r = sfs_core::spectrum::io::read::Builder::default()
        .set_input(Input::Path(path.into()))
        .read();
    match r {
        Ok(s) => scs_json(&s),
        Err(e) => json!({"err": e.to_string()}),
    }
}

fn op_hyper(req: &Value) -> Value {
    let qs = req["q"].as_array().expect("q");
    let out: Vec<Value> = qs
        .iter()
        .map(|q| {
            let q = usizes(q);
            match guarded(|| {
                sfs_core::utils::hypergeometric_pmf(
                    q[0] as u64,
                    q[1] as u64,
                    q[2] as u64,
                    q[3] as u64,
                )
            }) {
                Ok(x) => Value::String(hex(x)),
                Err(p) => json!({"panic": p}),
            }
        })
        .collect();
    json!({"pmf": out})
}

// ---------------------------------------------------------------------------------------------
// Array / view / iterator API (C19)
// ---------------------------------------------------------------------------------------------

fn opt_f(x: Option<&f64>) -> Value {
    match x {
        Some(v) => json!(*v as i64),
        None => Value::Null,
    }
}

fn g<T: Into<Value>>(r: Result<T, String>) -> Value {
    match r {
        Ok(v) => v.into(),
        Err(p) => json!({"panic": p}),
    }
}

/// Call histories that end in a CONSUMING adaptor: a fresh iterator is advanced by `k` calls of `next()` and then handed to one of
/// `count`, `last`, `fold`, `for_each`, `collect`, `nth(1)`, `step_by(2)`, `skip(1).count()`, `size_hint` (std's provided
/// methods, which an iterator may override). One JSON object per (k, adaptor); a panic is recorded, not propagated.
fn terminal_histories<I, T, M, F>(mk: M, ks: &[usize], to_val: F) -> Value
where
    I: Iterator<Item = T>,
    M: Fn() -> I,
    F: Fn(T) -> Value + Copy,
{
    let mut out = Vec::new();
    for &k in ks {
        let advanced = || {
            let mut it = mk();
            for _ in 0..k {
                let _ = it.next();
            }
            it
        };
        let mut o = serde_json::Map::new();
        o.insert("k".into(), json!(k));
        o.insert("count".into(), g(guarded(|| json!(advanced().count()))));
        o.insert(
            "last".into(),
            g(guarded(|| advanced().last().map(to_val).unwrap_or(Value::Null))),
        );
        o.insert(
            "fold".into(),
            g(guarded(|| {
                Value::Array(advanced().fold(Vec::new(), |mut acc, x| {
                    acc.push(to_val(x));
                    acc
                }))
            })),
        );
        o.insert(
            "for_each".into(),
            g(guarded(|| {
                let mut acc = Vec::new();
                advanced().for_each(|x| acc.push(to_val(x)));
                Value::Array(acc)
            })),
        );
        o.insert(
            "collect".into(),
            g(guarded(|| {
                Value::Array(advanced().collect::<Vec<_>>().into_iter().map(to_val).collect())
            })),
        );
        o.insert(
            "nth1".into(),
            g(guarded(|| advanced().nth(1).map(to_val).unwrap_or(Value::Null))),
        );
        o.insert(
            "step2".into(),
            g(guarded(|| Value::Array(advanced().step_by(2).map(to_val).collect()))),
        );
        o.insert("skip1_count".into(), g(guarded(|| json!(advanced().skip(1).count()))));
        // nth with counts at the top of the usize range (what `skip(usize::MAX)` or a wrapped subtraction passes down), then next()
        o.insert(
            "nth_huge".into(),
            g(guarded(|| {
                Value::Array(
                    [usize::MAX, usize::MAX - 1, usize::MAX - 2, usize::MAX / 2 + 1]
                        .iter()
                        .map(|&c| {
                            let mut it = advanced();
                            let a = it.nth(c).map(to_val).unwrap_or(Value::Null);
                            let b = it.next().map(to_val).unwrap_or(Value::Null);
                            json!([a, b])
                        })
                        .collect(),
                )
            })),
        );
        o.insert(
            "size_hint".into(),
            g(guarded(|| {
                let (lo, hi) = advanced().size_hint();
                json!([lo, hi])
            })),
        );
        out.push(Value::Object(o));
    }
    Value::Array(out)
}

fn history_points(total: usize) -> Vec<usize> {
    let mut ks = vec![0, 1, 2, 3, total / 2, total.saturating_sub(1), total, total + 1];
    ks.retain(|k| *k <= total + 1);
    ks.sort_unstable();
    ks.dedup();
    ks
}

fn op_array(req: &Value) -> Value {
    let shape = usizes(&req["shape"]);
    let n: usize = shape.iter().product();
    // element i holds its own flat position; with "signed" every odd position is negated (value classes matter to `sum`)
    let signed = req["signed"].as_bool().unwrap_or(false);
    let array = match Array::new(
        (0..n)
            .map(|i| if signed && i % 2 == 1 { -(i as f64) } else { i as f64 })
            .collect::<Vec<_>>(),
        Shape(shape.clone()),
    )
    {
        Ok(a) => a,
        Err(e) => return json!({"input_err": e.to_string()}),
    };
    let d = shape.len();
    let extra = req["extra"].as_u64().unwrap_or(3) as usize;
    let mut out = serde_json::Map::new();

    out.insert("dimensions".into(), g(guarded(|| array.dimensions())));
    out.insert("elements".into(), g(guarded(|| array.elements())));

    // "light": only get() and sum() - for arrays with millions of elements
    if req["light"].as_bool().unwrap_or(false) {
        if let Some(queries) = req["get"].as_array() {
            let res: Vec<Value> = queries
                .iter()
                .map(|q| {
                    let idx = usizes(q);
                    g(guarded(|| opt_f(array.get(&idx))))
                })
                .collect();
            out.insert("get".into(), Value::Array(res));
        }
        let mut sums = Vec::new();
        for a in 0..d {
            let r = guarded(|| {
                let s = array.sum(Axis(a));
                // a digest instead of millions of numbers: length, plain sum and position-weighted sum of the entries (exact in i128)
                let (mut t0, mut t1) = (0i128, 0i128);
                for (i, x) in s.as_slice().iter().enumerate() {
                    t0 += *x as i128;
                    t1 += (*x as i128) * ((i % 1_000_003) as i128 + 1);
                }
                json!({"shape": s.shape().0.clone(), "len": s.as_slice().len(), "t0": t0.to_string(), "t1": t1.to_string(),
                       "head": s.as_slice().iter().take(8).map(|x| *x as i64).collect::<Vec<_>>(),
                       "tail": s.as_slice().iter().rev().take(8).map(|x| *x as i64).collect::<Vec<_>>()})
            });
            sums.push(json!({"axis": a, "r": g(r)}));
        }
        out.insert("sum_digest".into(), Value::Array(sums));
        return Value::Object(out);
    }

    // iter_indices: (len before each next, item) ... continued past exhaustion.
    out.insert(
        "iter_indices".into(),
        g(guarded(|| {
            let mut it = array.iter_indices();
            let mut trace = Vec::new();
            for _ in 0..n + extra {
                let len = it.len();
                let item = it.next();
                trace.push(json!([len, item]));
            }
            Value::Array(trace)
        })),
    );

    // iter_indices driven by mixed call histories: ["next"] / ["nth", k] / ["len"]; each step records (len before, result).
    if let Some(histories) = req["index_histories"].as_array() {
        let res: Vec<Value> = histories
            .iter()
            .map(|h| {
                g(guarded(|| {
                    let mut it = array.iter_indices();
                    let mut trace = Vec::new();
                    for step in h.as_array().expect("history") {
                        let len = guarded(|| it.len());
                        let item = match step[0].as_str().expect("op") {
                            "nth" => {
                                let k = step[1].as_u64().expect("k") as usize;
                                guarded(|| json!(it.nth(k)))
                            }
                            _ => guarded(|| json!(it.next())),
                        };
                        let stop = item.is_err();
                        trace.push(json!([g(len), g(item)]));
                        if stop {
                            break;
                        }
                    }
                    Value::Array(trace)
                }))
            })
            .collect();
        out.insert("index_histories".into(), Value::Array(res));
    }

    // get() with caller-supplied index queries.
    if let Some(queries) = req["get"].as_array() {
        let res: Vec<Value> = queries
            .iter()
            .map(|q| {
                let idx = usizes(q);
                g(guarded(|| opt_f(array.get(&idx))))
            })
            .collect();
        out.insert("get".into(), Value::Array(res));
    }

    // get_mut() with the same queries (on a copy).
    if let Some(queries) = req["get"].as_array() {
        let mut copy = array.clone();
        let res: Vec<Value> = queries
            .iter()
            .map(|q| {
                let idx = usizes(q);
                g(guarded(panic::AssertUnwindSafe(|| opt_f(copy.get_mut(&idx).map(|x| &*x)))))
            })
            .collect();
        out.insert("get_mut".into(), Value::Array(res));
    }

    // The same array reached through other construction / copy histories: every one must answer like the original.
    if req["histories"].as_bool().unwrap_or(false) {
        let queries: Vec<Vec<usize>> = req["get"]
            .as_array()
            .map(|a| a.iter().map(usizes).collect())
            .unwrap_or_default();
        let probe = |a: &Array<f64>| -> Value {
            let gets: Vec<Value> = queries
                .iter()
                .map(|idx| g(guarded(|| opt_f(a.get(idx)))))
                .collect();
            let last = d - 1;
            let sum_last = guarded(|| {
                let s = a.sum(Axis(last));
                json!({"shape": s.shape().0.clone(),
                       "data": s.as_slice().iter().map(|x| *x as i64).collect::<Vec<_>>()})
            });
            let view0 = guarded(|| {
                a.get_axis(Axis(0), shape[0] - 1)
                    .map(|v| json!(v.iter().map(|x| *x as i64).collect::<Vec<_>>()))
                    .unwrap_or(Value::Null)
            });
            json!({"shape": a.shape().0.clone(),
                   "data": a.as_slice().iter().map(|x| *x as i64).collect::<Vec<_>>(),
                   "get": gets, "sum_last": g(sum_last), "view0_last": g(view0)})
        };
        let values: Vec<f64> = array.as_slice().to_vec();
        let mut hist = serde_json::Map::new();
        hist.insert("original".into(), probe(&array));
        hist.insert("clone".into(), g(guarded(|| probe(&array.clone()))));
        // clone_from into targets of another shape / size
        let mut other_shape: Vec<usize> = shape.iter().rev().copied().collect();
        other_shape.push(2);
        for (name, target_shape) in [
            ("clone_from_other_shape", other_shape),
            ("clone_from_one_axis", vec![n + 1]),
            ("clone_from_same_shape", shape.clone()),
        ] {
            hist.insert(
                name.into(),
                g(guarded(|| {
                    let mut target = Array::from_zeros(Shape(target_shape.clone()));
                    target.clone_from(&array);
                    probe(&target)
                })),
            );
        }
        hist.insert(
            "from_iter".into(),
            g(guarded(|| match Array::from_iter(values.iter().copied(), Shape(shape.clone())) {
                Ok(a) => probe(&a),
                Err(e) => json!({"err": e.to_string()}),
            })),
        );
        hist.insert(
            "new_unchecked".into(),
            g(guarded(|| probe(&Array::new_unchecked(values.clone(), Shape(shape.clone()))))),
        );
        hist.insert(
            "from_zeros_then_fill".into(),
            g(guarded(|| {
                let mut a = Array::from_zeros(Shape(shape.clone()));
                a.as_mut_slice().copy_from_slice(&values);
                probe(&a)
            })),
        );
        hist.insert(
            "from_element_then_iter_mut".into(),
            g(guarded(|| {
                let mut a = Array::from_element(0.0, Shape(shape.clone()));
                a.iter_mut().zip(values.iter()).for_each(|(x, v)| *x = *v);
                probe(&a)
            })),
        );
        hist.insert(
            "index_mut_fill".into(),
            g(guarded(|| {
                let mut a = Array::from_zeros(Shape(shape.clone()));
                let indices: Vec<Vec<usize>> = a.iter_indices().collect();
                for (idx, v) in indices.iter().zip(values.iter()) {
                    a[idx.as_slice()] = *v;
                }
                probe(&a)
            })),
        );
        out.insert("histories".into(), Value::Object(hist));
    }

    // get_axis / view iteration over a grid of axes and positions incl. out-of-range ones.
    let mut axes: Vec<usize> = (0..d + 2).collect();
    axes.push(usize::MAX);
    let mut views = Vec::new();
    for &a in &axes {
        let len_a = shape.get(a).copied().unwrap_or(1);
        let mut positions: Vec<usize> = (0..len_a + 2).collect();
        positions.push(usize::MAX);
        for &i in &positions {
            let r = guarded(|| match array.get_axis(Axis(a), i) {
                None => Value::Null,
                Some(view) => {
                    let dims = guarded(|| view.dimensions());
                    let total: usize = shape
                        .iter()
                        .enumerate()
                        .filter(|(j, _)| *j != a)
                        .map(|(_, v)| *v)
                        .product();
                    let trace = guarded(|| {
                        let mut it = view.iter();
                        let mut trace = Vec::new();
                        for _ in 0..2 * total + 5 {
                            let len = guarded(|| it.len());
                            let item = guarded(|| opt_f(it.next()));
                            let stop = item.is_err();
                            trace.push(json!([g(len), g(item)]));
                            if stop {
                                break;
                            }
                        }
                        Value::Array(trace)
                    });
                    let to_array = guarded(|| {
                        let arr = view.to_array();
                        json!({"shape": arr.shape().0.clone(),
                               "data": arr.as_slice().iter().map(|x| *x as i64).collect::<Vec<_>>()})
                    });
                    let terminals = if req["terminals"].as_bool().unwrap_or(false) {
                        terminal_histories(|| view.iter(), &history_points(total), |x: &f64| json!(*x as i64))
                    } else {
                        Value::Null
                    };
                    json!({"dims": g(dims), "trace": g(trace), "to_array": g(to_array), "terminals": terminals})
                }
            });
            views.push(json!({"axis": if a == usize::MAX { json!("max") } else { json!(a) },
                              "pos": if i == usize::MAX { json!("max") } else { json!(i) },
                              "r": g(r)}));
        }
    }
    out.insert("views".into(), Value::Array(views));

    // iter_axis traces and sum(axis), for valid axes (+ one invalid axis for iter_axis).
    let mut axis_iters = Vec::new();
    for a in 0..d + 1 {
        let r = guarded(|| {
            let mut it = array.iter_axis(Axis(a));
            let len_a = shape.get(a).copied().unwrap_or(0);
            let mut trace = Vec::new();
            for _ in 0..len_a + extra {
                let len = guarded(|| it.len());
                let item = guarded(|| {
                    it.next().map(|view| {
                        view.iter().map(|x| *x as i64).collect::<Vec<_>>()
                    })
                });
                let stop = item.is_err();
                trace.push(json!([g(len), g(item.map(|o| json!(o)))]));
                if stop {
                    break;
                }
            }
            Value::Array(trace)
        });
        axis_iters.push(json!({"axis": a, "trace": g(r)}));
    }
    out.insert("iter_axis".into(), Value::Array(axis_iters));

    if req["terminals"].as_bool().unwrap_or(false) {
        out.insert(
            "index_terminals".into(),
            terminal_histories(|| array.iter_indices(), &history_points(n), |x| json!(x)),
        );
        let mut axis_terminals = Vec::new();
        for a in 0..d {
            axis_terminals.push(terminal_histories(
                || array.iter_axis(Axis(a)),
                &history_points(shape[a]),
                |view| json!(view.iter().map(|x| *x as i64).collect::<Vec<_>>()),
            ));
        }
        out.insert("axis_terminals".into(), Value::Array(axis_terminals));
    }

    let mut sums = Vec::new();
    for a in 0..d {
        let r = guarded(|| {
            let s = array.sum(Axis(a));
            json!({"shape": s.shape().0.clone(),
                   "data": s.as_slice().iter().map(|x| *x as i64).collect::<Vec<_>>()})
        });
        sums.push(json!({"axis": a, "r": g(r)}));
    }
    out.insert("sum".into(), Value::Array(sums));

    Value::Object(out)
}

/// Concurrent library use: `jobs` (ordinary requests) are dealt round-robin to `threads` threads that start together behind a
/// barrier; replies come back in job order. Whatever the library shares between callers (caches, tables, statics) is then
/// exercised by several first uses at once - results must equal those of the same jobs run one after the other.
fn op_mt(req: &Value) -> Value {
    let jobs: Vec<Value> = req["jobs"].as_array().expect("jobs").clone();
    let threads = (req["threads"].as_u64().unwrap_or(4) as usize).max(1);
    let barrier = Arc::new(std::sync::Barrier::new(threads));
    let jobs = Arc::new(jobs);
    let mut handles = Vec::new();
    for t in 0..threads {
        let jobs = Arc::clone(&jobs);
        let barrier = Arc::clone(&barrier);
        // named like the main thread so that the panic hook files a panic under this thread's own LAST_PANIC slot
        let builder = std::thread::Builder::new().name("main".into());
        handles.push(builder.spawn(move || {
            barrier.wait();
            let mut mine = Vec::new();
            let mut i = t;
            while i < jobs.len() {
                let r = match guarded(|| dispatch(&jobs[i])) {
                    Ok(v) => v,
                    Err(p) => json!({"panic": p}),
                };
                mine.push((i, r));
                i += threads;
            }
            mine
        }).expect("spawn"));
    }
    let mut replies = vec![Value::Null; jobs.len()];
    for h in handles {
        match h.join() {
            Ok(mine) => {
                for (i, r) in mine {
                    replies[i] = r;
                }
            }
            Err(_) => return json!({"panic": "a worker thread of op mt died"}),
        }
    }
    json!({"replies": replies, "threads": threads})
}

fn dispatch(req: &Value) -> Value {
    match req["op"].as_str().expect("op") {
        "site_hist" => op_site_hist(req),
        "create" => op_create(req),
        "spec" => op_spec(req),
        "read_npy" => op_read_npy(req),
        "read_file" => op_read_file(req),
        "hyper" => op_hyper(req),
        "array" => op_array(req),
        "mt" => op_mt(req),
        "ping" => json!({"pong": true, "overflow_checks": cfg!(debug_assertions) || overflow_checks_on()}),
        other => panic!("unknown op {other}"),
    }
}

#[allow(arithmetic_overflow)]
fn overflow_checks_on() -> bool {
    // Observes whether this build traps on overflow (profile `ovf`) or wraps (release).
    let r = panic::catch_unwind(|| {
        let x: u8 = std::hint::black_box(255);
        std::hint::black_box(x + std::hint::black_box(1))
    });
    let _ = LAST_PANIC.with(|p| p.borrow_mut().take());
    r.is_err()
}

fn main() {
    install_panic_hook();
    let arg = std::env::args().nth(1);
    let input: Box<dyn BufRead> = match arg {
        Some(path) if path != "-" => {
            Box::new(io::BufReader::new(std::fs::File::open(path).expect("open request file")))
        }
        _ => Box::new(io::BufReader::new(io::stdin())),
    };
    let stdout = io::stdout();
    let mut out = io::BufWriter::new(stdout.lock());
    for line in input.lines() {
        let line = line.expect("read request");
        if line.trim().is_empty() {
            continue;
        }
        let req: Value = serde_json::from_str(&line).expect("request json");
        let id = req["id"].clone();
        let mut res = match guarded(|| dispatch(&req)) {
            Ok(v) => v,
            Err(p) => json!({"panic": p}),
        };
        if let Some(p) = OTHER_THREAD_PANIC.lock().unwrap().take() {
            res["thread_panic"] = json!(p);
        }
        res["id"] = id;
        serde_json::to_writer(&mut out, &res).unwrap();
        out.write_all(b"\n").unwrap();
        out.flush().unwrap();
    }
}
