// failio.so - LD_PRELOAD interposer used by the S-level monitors (C12, C18).
//
// It CONTROLS how many bytes each read()/write() on one chosen descriptor transfers (chunk
// schedules, short writes), INJECTS an errno at a chosen byte offset, optionally delays reads, and
// LOGS what it did to a side file so the monitor can tell which faults were really delivered.
//
//   FAILIO_READ_FD=<n> | FAILIO_READ_PATH=<substring of the path given to open/openat>
//   FAILIO_READ_CHUNKS=a,b,c   sizes of the first reads      FAILIO_READ_REST=<n> (0 = whatever is asked)
//   FAILIO_READ_FAIL_AT=<offset>  FAILIO_READ_ERRNO=<n> (default EIO)
//   FAILIO_READ_DELAY_US=<max>    FAILIO_SEED=<n>
//   FAILIO_WRITE_FD=<n> | FAILIO_WRITE_PATH=<substring>  FAILIO_WRITE_MAX=<n>  FAILIO_WRITE_FAIL_AT=<offset>  FAILIO_WRITE_ERRNO=<n> (default ENOSPC)
//   FAILIO_LOG=<path>
#define _GNU_SOURCE
#include <dlfcn.h>
#include <errno.h>
#include <fcntl.h>
#include <pthread.h>
#include <stdarg.h>
#include <stdio.h>
#include <stdlib.h>
#include <string.h>
#include <unistd.h>

static ssize_t (*real_read)(int, void *, size_t);
static ssize_t (*real_write)(int, const void *, size_t);
static int (*real_open)(const char *, int, ...);
static int (*real_open64)(const char *, int, ...);
static int (*real_openat)(int, const char *, int, ...);
static int (*real_openat64)(int, const char *, int, ...);

static pthread_mutex_t mu = PTHREAD_MUTEX_INITIALIZER;
static int inited = 0;
static int read_fd = -1, write_fd = -1, log_fd = -1;
static const char *read_path = NULL, *write_path = NULL;
static long chunks[4096];
static int nchunks = 0, chunk_i = 0;
static long read_rest = 0, read_fail_at = -1, read_off = 0, read_delay_us = 0;
static int read_errno = EIO;
static long write_max = 0, write_fail_at = -1, write_off = 0;
static int write_errno = ENOSPC;
static unsigned long long rng_state = 88172645463325252ULL;

static unsigned long long rng(void) {
    rng_state ^= rng_state << 13; rng_state ^= rng_state >> 7; rng_state ^= rng_state << 17;
    return rng_state;
}

static long env_long(const char *name, long dflt) {
    const char *v = getenv(name);
    return (v && *v) ? atol(v) : dflt;
}

static void logf_(const char *fmt, ...) {
    if (log_fd < 0) return;
    char buf[256];
    va_list ap; va_start(ap, fmt);
    int n = vsnprintf(buf, sizeof buf, fmt, ap);
    va_end(ap);
    if (n > 0) real_write(log_fd, buf, (size_t)n);
}

static void init(void) {
    if (inited) return;
    inited = 1;
    real_read = dlsym(RTLD_NEXT, "read");
    real_write = dlsym(RTLD_NEXT, "write");
    real_open = dlsym(RTLD_NEXT, "open");
    real_open64 = dlsym(RTLD_NEXT, "open64");
    real_openat = dlsym(RTLD_NEXT, "openat");
    real_openat64 = dlsym(RTLD_NEXT, "openat64");
    read_fd = (int)env_long("FAILIO_READ_FD", -1);
    write_fd = (int)env_long("FAILIO_WRITE_FD", -1);
    read_path = getenv("FAILIO_READ_PATH");
    if (read_path && !*read_path) read_path = NULL;
    write_path = getenv("FAILIO_WRITE_PATH");
    if (write_path && !*write_path) write_path = NULL;
    read_rest = env_long("FAILIO_READ_REST", 0);
    read_fail_at = env_long("FAILIO_READ_FAIL_AT", -1);
    read_errno = (int)env_long("FAILIO_READ_ERRNO", EIO);
    read_delay_us = env_long("FAILIO_READ_DELAY_US", 0);
    write_max = env_long("FAILIO_WRITE_MAX", 0);
    write_fail_at = env_long("FAILIO_WRITE_FAIL_AT", -1);
    write_errno = (int)env_long("FAILIO_WRITE_ERRNO", ENOSPC);
    long seed = env_long("FAILIO_SEED", 0);
    if (seed) rng_state ^= (unsigned long long)seed * 0x9E3779B97F4A7C15ULL;
    const char *c = getenv("FAILIO_READ_CHUNKS");
    if (c && *c) {
        char *dup = strdup(c), *save = NULL;
        for (char *t = strtok_r(dup, ",", &save); t && nchunks < 4096; t = strtok_r(NULL, ",", &save))
            chunks[nchunks++] = atol(t);
        free(dup);
    }
    const char *lp = getenv("FAILIO_LOG");
    if (lp && *lp) {
        int (*o)(const char *, int, ...) = real_open ? real_open : real_open64;
        log_fd = o(lp, O_WRONLY | O_CREAT | O_APPEND | O_CLOEXEC, 0644);
    }
}

static void maybe_track(const char *path, int fd) {
    if (fd >= 0 && read_path && path && strstr(path, read_path) && read_fd < 0) {
        read_fd = fd;
        logf_("open %d %s\n", fd, path);
    }
    if (fd >= 0 && write_path && path && strstr(path, write_path) && write_fd < 0) {
        write_fd = fd;
        logf_("openw %d %s\n", fd, path);
    }
}

#define OPEN_BODY(realfn, ...)                                   \
    mode_t mode = 0;                                             \
    if (flags & (O_CREAT | O_TMPFILE)) {                         \
        va_list ap; va_start(ap, flags); mode = va_arg(ap, mode_t); va_end(ap); \
    }                                                            \
    pthread_mutex_lock(&mu); init(); pthread_mutex_unlock(&mu);  \
    int fd = realfn(__VA_ARGS__, flags, mode);                   \
    pthread_mutex_lock(&mu); maybe_track(path, fd); pthread_mutex_unlock(&mu); \
    return fd;

int open(const char *path, int flags, ...) { OPEN_BODY(real_open, path) }
int open64(const char *path, int flags, ...) { OPEN_BODY(real_open64, path) }
int openat(int dirfd, const char *path, int flags, ...) { OPEN_BODY(real_openat, dirfd, path) }
int openat64(int dirfd, const char *path, int flags, ...) { OPEN_BODY(real_openat64, dirfd, path) }

ssize_t read(int fd, void *buf, size_t count) {
    pthread_mutex_lock(&mu);
    init();
    if (fd != read_fd || fd < 0 || count == 0) {
        pthread_mutex_unlock(&mu);
        return real_read(fd, buf, count);
    }
    if (read_fail_at >= 0 && read_off >= read_fail_at) {
        logf_("fault r %ld errno %d\n", read_off, read_errno);
        pthread_mutex_unlock(&mu);
        errno = read_errno;
        return -1;
    }
    size_t want = count;
    long plan = chunk_i < nchunks ? chunks[chunk_i] : read_rest;
    chunk_i++;
    if (plan > 0 && (size_t)plan < want) want = (size_t)plan;
    if (read_fail_at >= 0 && (long)want > read_fail_at - read_off) want = (size_t)(read_fail_at - read_off);
    long delay = read_delay_us > 0 ? (long)(rng() % (unsigned long long)(read_delay_us + 1)) : 0;
    pthread_mutex_unlock(&mu);
    if (delay > 0) usleep((useconds_t)delay);
    // Fill `want` bytes unless the stream ends: the planned chunk length is what the program sees.
    size_t got = 0;
    while (got < want) {
        ssize_t n = real_read(fd, (char *)buf + got, want - got);
        if (n < 0) { if (errno == EINTR) continue; if (got == 0) return -1; break; }
        if (n == 0) break;
        got += (size_t)n;
    }
    pthread_mutex_lock(&mu);
    read_off += (long)got;
    logf_("r %zu %zu\n", count, got);
    pthread_mutex_unlock(&mu);
    return (ssize_t)got;
}

ssize_t write(int fd, const void *buf, size_t count) {
    pthread_mutex_lock(&mu);
    init();
    if (fd != write_fd || fd < 0 || count == 0) {
        pthread_mutex_unlock(&mu);
        return real_write(fd, buf, count);
    }
    if (write_fail_at >= 0 && write_off >= write_fail_at) {
        logf_("fault w %ld errno %d\n", write_off, write_errno);
        pthread_mutex_unlock(&mu);
        errno = write_errno;
        return -1;
    }
    size_t want = count;
    if (write_max > 0 && (size_t)write_max < want) want = (size_t)write_max;
    if (write_fail_at >= 0 && (long)want > write_fail_at - write_off) want = (size_t)(write_fail_at - write_off);
    pthread_mutex_unlock(&mu);
    ssize_t n = real_write(fd, buf, want);
    pthread_mutex_lock(&mu);
    if (n > 0) write_off += n;
    logf_("w %zu %zd\n", count, n);
    pthread_mutex_unlock(&mu);
    return n;
}
