"""Driving the real `sfs` binary at its process boundary."""
import os, subprocess, signal
from concurrent.futures import ThreadPoolExecutor
from . import build
from .common import NCPU

BASE_ENV = {"SFS_ALLOW_STDIN": "1", "RUST_BACKTRACE": "0", "PATH": os.environ.get("PATH", "/usr/bin:/bin"),
            "LC_ALL": "C"}


class Run:
    __slots__ = ("argv", "rc", "out", "err", "timed_out", "signal", "stdin", "env", "kind")

    def __init__(self, argv, rc, out, err, timed_out=False, stdin=None, env=None, kind="release"):
        # arguments that are raw bytes (not valid UTF-8) are kept readable: surrogate-escaped strings go back to the same bytes on exec
        argv = [a.decode("utf-8", "surrogateescape") if isinstance(a, bytes) else a for a in argv]
        self.argv, self.rc, self.out, self.err, self.timed_out = argv, rc, out, err, timed_out
        self.signal = -rc if rc is not None and rc < 0 else None
        self.stdin, self.env, self.kind = stdin, env, kind

    @property
    def panicked(self):
        return self.rc == 101 or b"panicked at" in self.err

    def brief(self):
        return {"argv": self.argv, "rc": self.rc, "stdout": self.out[:400].decode("utf-8", "replace"),
                "stderr": self.err[:600].decode("utf-8", "replace"), "timed_out": self.timed_out}


def _limit_as(nbytes):
    def f():
        import resource
        resource.setrlimit(resource.RLIMIT_AS, (nbytes, nbytes))
    return f


MIX_CHECKED = {"on": os.environ.get("VERIF_MIX_CHECKED", "on") != "off", "runs": 0}


def sfs(args, stdin=None, kind="release", env=None, timeout=30, exe=None, cwd=None, mem_limit=None, stderr_path=None, stdin_tty=False):
    """Run `sfs args...`; stdin: bytes or None (=/dev/null). Never raises on failure of the tool.
    mem_limit: optional RLIMIT_AS in bytes for the child. stdin_tty: stdin is an (idle) interactive terminal, as at a shell
    prompt - only meaningful when the input is named by a path."""
    if exe is None and kind == "release" and MIX_CHECKED["on"]:
        # Every fourth invocation (chosen by its own content, so a re-run picks the same build) goes to the CHECKED build of the binary:
        # integer overflow traps, debug assertions and the standard library's precondition checks of unsafe functions in the sfs
        # crates. Its output must be what the release build prints - the monitors compare it exactly as they compare any other run.
        import zlib
        h = zlib.crc32(("\x00".join(str(a) for a in args if not str(a).startswith("/")) + "|%d" % len(stdin or b"")).encode("utf-8", "surrogateescape"))
        if h % 4 == 0:
            kind = "ovf"
            MIX_CHECKED["runs"] += 1
    exe = exe or build.cli(kind)
    e = dict(BASE_ENV)
    if env:
        e.update(env)
    argv = [exe] + [a if isinstance(a, bytes) else str(a) for a in args]
    if stdin_tty:
        import pty
        master, slave = pty.openpty()
        try:
            p = subprocess.run(argv, stdin=slave, stdout=subprocess.PIPE, stderr=subprocess.PIPE, env=e, timeout=timeout, cwd=cwd)
            return Run(argv[1:], p.returncode, p.stdout, p.stderr, stdin=None, env=env, kind=kind)
        except subprocess.TimeoutExpired as t:
            return Run(argv[1:], None, t.stdout or b"", t.stderr or b"", timed_out=True, stdin=None, env=env, kind=kind)
        finally:
            os.close(master)
            os.close(slave)
    try:
        if stderr_path:
            # stderr goes to a device/file of the caller's choice (e.g. /dev/full): nothing can be read back from it
            with open(stderr_path, "wb") as ef:
                p = subprocess.run(argv, input=stdin if stdin is not None else b"", stdout=subprocess.PIPE, stderr=ef, env=e, timeout=timeout, cwd=cwd)
            return Run(argv[1:], p.returncode, p.stdout, b"", stdin=stdin, env=env, kind=kind)
        p = subprocess.run(argv, input=stdin if stdin is not None else b"", stdout=subprocess.PIPE,
                           stderr=subprocess.PIPE, env=e, timeout=timeout, cwd=cwd,
                           preexec_fn=_limit_as(mem_limit) if mem_limit else None)
        return Run(argv[1:], p.returncode, p.stdout, p.stderr, stdin=stdin, env=env, kind=kind)
    except subprocess.TimeoutExpired as t:
        return Run(argv[1:], None, t.stdout or b"", t.stderr or b"", timed_out=True, stdin=stdin, env=env, kind=kind)


def sfs_stdout_to(args, stdin, where, kind="release", timeout=30):
    """Run with stdout connected to something that cannot take the output. where: 'closed-pipe' (a pipe whose reader has gone:
    EPIPE), '/dev/full' (ENOSPC), 'read-only-fd' (a descriptor opened for reading: EBADF). Only stderr and the status come back."""
    exe = build.cli(kind)
    e = dict(BASE_ENV)
    argv = [exe] + [a if isinstance(a, bytes) else str(a) for a in args]
    close = []
    if where == "closed-pipe":
        rd, wr = os.pipe()
        os.close(rd)
        out = wr
        close.append(wr)
    elif where == "read-only-fd":
        out = os.open("/dev/null", os.O_RDONLY)
        close.append(out)
    else:
        out = os.open(where, os.O_WRONLY)
        close.append(out)
    try:
        p = subprocess.run(argv, input=stdin if stdin is not None else b"", stdout=out, stderr=subprocess.PIPE, env=e, timeout=timeout)
        return Run(argv[1:], p.returncode, b"", p.stderr, stdin=stdin, kind=kind)
    except subprocess.TimeoutExpired as t:
        return Run(argv[1:], None, b"", t.stderr or b"", timed_out=True, stdin=stdin, kind=kind)
    finally:
        for fd in close:
            try:
                os.close(fd)
            except OSError:
                pass


def sfs_nonblocking_stdout(args, stdin, kind="release", timeout=60, pause=0.002, piece=4096):
    """stdout is a pipe in O_NONBLOCK mode (what a parent that multiplexes its children, e.g. a job scheduler or an async runtime,
    hands down) read by a SLOW consumer: write() returns EAGAIN whenever the pipe is full. Returns a Run with everything that arrived."""
    import fcntl, time as _t
    exe = build.cli(kind)
    e = dict(BASE_ENV)
    argv = [exe] + [a if isinstance(a, bytes) else str(a) for a in args]
    rd, wr = os.pipe()
    fcntl.fcntl(wr, fcntl.F_SETFL, fcntl.fcntl(wr, fcntl.F_GETFL) | os.O_NONBLOCK)
    try:
        fcntl.fcntl(wr, 1031, 4096)          # F_SETPIPE_SZ: the smallest pipe, so that it fills up quickly
    except OSError:
        pass
    p = subprocess.Popen(argv, stdin=subprocess.PIPE, stdout=wr, stderr=subprocess.PIPE, env=e)
    os.close(wr)
    import threading
    def feed():
        try:
            p.stdin.write(stdin or b"")
            p.stdin.close()
        except OSError:
            pass
    th = threading.Thread(target=feed, daemon=True)
    th.start()
    chunks, t0 = [], _t.time()
    while True:
        _t.sleep(pause)
        b = os.read(rd, piece)
        if not b:
            break
        chunks.append(b)
        if _t.time() - t0 > timeout:
            p.kill()
            break
    os.close(rd)
    err = p.stderr.read()
    rc = p.wait()
    th.join(timeout=2)
    return Run(argv[1:], rc, b"".join(chunks), err, stdin=stdin, kind=kind)


def pipeline(stages, stdin=None, kind="release", timeout=30):
    """Run stages (list of arg lists) connected by pipes in memory; returns list of Run."""
    runs = []
    data = stdin
    for args in stages:
        r = sfs(args, stdin=data, kind=kind, timeout=timeout)
        runs.append(r)
        data = r.out
    return runs


def pmap(fn, items, workers=None):
    """Thread pool map (subprocess-bound work)."""
    with ThreadPoolExecutor(max_workers=workers or NCPU) as ex:
        return list(ex.map(fn, items))


def sfs_dribble(args, data, first=1, pause=0.004, kind="release", env=None, timeout=60):
    """Feed stdin through a real pipe in two writes (first `first` bytes, a pause, then the rest)."""
    import time as _t
    exe = build.cli(kind)
    e = dict(BASE_ENV)
    if env:
        e.update(env)
    argv = [exe] + [a if isinstance(a, bytes) else str(a) for a in args]
    p = subprocess.Popen(argv, stdin=subprocess.PIPE, stdout=subprocess.PIPE, stderr=subprocess.PIPE, env=e)
    try:
        try:
            p.stdin.write(data[:first])
            p.stdin.flush()
            _t.sleep(pause)
            p.stdin.write(data[first:])
            p.stdin.close()
        except (BrokenPipeError, OSError):
            pass
        p.stdin = None          # already closed; keep communicate() from flushing it again
        out, err = p.communicate(timeout=timeout)
        return Run(argv[1:], p.returncode, out, err)
    except subprocess.TimeoutExpired:
        p.kill()
        out, err = p.communicate()
        return Run(argv[1:], None, out, err, timed_out=True)
