"""C09 - axes follow first appearance of population labels; only listed samples count.

C: reference output + four metamorphic twins per base case (column permutation, order-preserving
list permutation, label permutation => transpose, --samples vs --samples-file). L1: the map logic
alone with many short (hash-collision-prone) labels, one probe record that identifies every axis.
"""
import itertools
from .. import harness, cli
from ..common import rng_for, h2f, digest
from ..engines import create as E
from ..gen import callsets as G
from ..gen.vcfgen import CallSet, Record, gt
from ..oracle.callset import reference_create, populations
from ..oracle import spectrum as O

LEVEL = "exploration"
NEEDS = ["harness", "cli"]
RULE = ("C: random call sets x random sample lists (subset, listing order, 1-4 labels, named/unnamed mix, labels with blanks, occasional repeated "
        "entry) -> reference spectrum, then 4 twins: permuted input columns (bytes equal), list permutation keeping first-appearance order (bytes "
        "equal), label-order permutation (== transpose), --samples vs --samples-file (bytes equal; also with CRLF / missing final terminator; a samples file with an empty line at the start, between entries or at the end is either rejected or read completely); unknown sample / empty list must fail with empty "
        "stdout. L1: 2-9 labels drawn from 1-2 character names, shape and axis assignment probed with one record. Non-trivial: >=2 populations "
        "of unequal size or order-sensitive counts; distinct = digest(codes, list).")
ASSUMPTIONS = ["sample names avoid the list syntax characters ',', '=' and tab", "integer counts: exact comparison"]
FLOORS = {"quick": {"evaluations": 2500, "distinct_nontrivial": 400, "counts": {"C_base": 250, "C_twin_runs": 1000, "L1_maps": 2000, "C_huge_cohort_runs": 2, "both_builds_short_records": 100}},
          "thorough": {"evaluations": 60000, "distinct_nontrivial": 10000, "counts": {"C_base": 8000, "C_twin_runs": 30000, "L1_maps": 50000}}}
NSHARD = 32


def plan(tier, seed):
    q = tier == "quick"
    return [{"name": "s%d" % i, "i": i, "c": 10 if q else 1200, "l1": 90 if q else 8000} for i in range(NSHARD)]


LABELS = ["A", "B", "popC", "D_4", "e", "YRI", "CEU", "x.y", "P-1", "pop A", "pop B", "a b c", "Z ", "K=2", "K=3", "a=b=c", "[unnamed]", "NA", "null", "None", "unnamed", "0", "population"]


def gen_map(rng, samples):
    k = rng.randint(1, len(samples))
    chosen = rng.sample(samples, k)
    npops = rng.randint(1, min(4, k))
    labels = rng.sample(LABELS, npops)
    if npops >= 2 and rng.random() < 0.15:
        # two labels that differ only in surrounding blanks are two labels (two axes), in a list and in a file alike
        labels[1] = rng.choice([labels[0] + " ", labels[0] + "  ", " " + labels[0]]) if not labels[0].endswith(" ") else labels[0].rstrip(" ")
        if rng.random() < 0.5:
            labels[0], labels[1] = labels[1], labels[0]
    if rng.random() < 0.35:
        labels[rng.randrange(npops)] = None
    assign = labels[:] + [rng.choice(labels) for _ in range(k - npops)]
    rng.shuffle(assign)
    return list(zip(chosen, assign))


def order_preserving_perm(rng, smap):
    """Shuffle entries but keep the first-appearance order of labels."""
    order = populations(smap)
    for _ in range(20):
        sh = smap[:]
        rng.shuffle(sh)
        if populations(sh) == order:
            return sh
    # constructive: one entry of each label first, in order, then the rest shuffled
    firsts, rest, seen = [], [], set()
    pool = smap[:]
    rng.shuffle(pool)
    for lab in order:
        for e in pool:
            if e[1] == lab and id(e) not in seen:
                firsts.append(e)
                seen.add(id(e))
                break
    rest = [e for e in pool if id(e) not in seen]
    return firsts + rest


def label_perm(rng, smap):
    """Reorder the list so that labels first appear in a permuted order. Returns (new list, perm) where new axis j = old axis perm[j]."""
    order = populations(smap)
    perm = list(range(len(order)))
    rng.shuffle(perm)
    new_order = [order[p] for p in perm]
    pool = smap[:]
    rng.shuffle(pool)
    firsts, used = [], set()
    for lab in new_order:
        for i, e in enumerate(pool):
            if e[1] == lab and i not in used:
                firsts.append(e)
                used.add(i)
                break
    rest = [e for i, e in enumerate(pool) if i not in used]
    return firsts + rest, perm


def permute_columns(rng, cs):
    idx = list(range(len(cs.samples)))
    rng.shuffle(idx)
    recs = [Record(r.contig, r.pos, [r.gts[i] for i in idx], ref=r.ref, alts=r.alts, id=r.id, qual=r.qual, filt=r.filt, info=r.info,
                   extra_fmt={k: [v[i] for i in idx] for k, v in r.extra_fmt.items()}) for r in cs.records]
    return CallSet([cs.samples[i] for i in idx], cs.contigs, recs, info_defs=cs.info_defs, fmt_defs=cs.fmt_defs, filters=cs.filters)


def expected_text(exp):
    return ("#SHAPE=<%s>\n%s\n" % ("/".join(map(str, exp.shape)), " ".join(str(int(x)) for x in exp.cells))).encode()


def check_C(S, p):
    seed = S.seed
    for i in range(p["c"]):
        labels = [p["name"], "C", i]
        rng = rng_for(seed, "c09", *labels)
        cs = G.random_callset(rng, nsamples=rng.choice([2, 3, 4, 5, 6, 8, 12]), nrecords=rng.choice([3, 10, 30, 80]),
                              p_missing=rng.choice([0, 0.03]), p_multi=0.0)
        smap = gen_map(rng, cs.samples)
        if rng.random() < 0.15:
            e = rng.choice(smap)
            smap.insert(rng.randrange(len(smap) + 1), e)      # harmless repeated entry (same label)
            if populations(smap) != populations([x for j, x in enumerate(smap)]):
                pass
        container = rng.choice(E.CONTAINERS)
        data = E.encode(cs, container, rng)
        exp = reference_create(cs, smap)
        base = E.cli_create(data, smap, samples_via="arg")
        S.count("C_base")
        tag = "C %s" % "/".join(map(str, labels))
        from .. import replay as R
        want = expected_text(exp)
        wit = {"labels": labels, "level": "C", "map": E.map_json(smap), "argv": base.argv, "input_b64": E.b64(data), "run": base.brief(), "replay": R.exact(base, want)}
        if base.rc != 0 or base.out != want:
            S.viol("C09:reference", "[%s] list %r: rc %s stdout %r, reference (axes in first-appearance order %r) %r" % (
                tag, E.map_json(smap), base.rc, base.out[:150], populations(smap), want[:150]), wit)
            continue
        # twin 1: permuted columns
        cs2 = permute_columns(rng, cs)
        t1 = E.cli_create(E.encode(cs2, container, rng), smap)
        S.count("C_twin_runs")
        if t1.rc != 0 or t1.out != base.out:
            S.viol("C09:column-order", "[%s] reordering the input's sample columns changed the output: %r vs %r" % (tag, t1.out[:150], base.out[:150]),
                   dict(wit, twin_columns=cs2.samples, replay=R.same(base, t1)))
        # twin 2: order-preserving list permutation
        sm2 = order_preserving_perm(rng, smap)
        t2 = E.cli_create(data, sm2)
        S.count("C_twin_runs")
        if t2.rc != 0 or t2.out != base.out:
            S.viol("C09:list-order", "[%s] list permutation keeping label order %r -> %r changed the output: %r vs %r" % (
                tag, E.map_json(smap), E.map_json(sm2), t2.out[:150], base.out[:150]), dict(wit, twin_map=E.map_json(sm2), replay=R.same(base, t2)))
        # twin 3: label permutation => transposed axes
        sm3, perm = label_perm(rng, smap)
        t3 = E.cli_create(data, sm3)
        S.count("C_twin_runs")
        ts, td = O.transpose(exp.shape, [int(x) for x in exp.cells], perm)
        want3 = ("#SHAPE=<%s>\n%s\n" % ("/".join(map(str, ts)), " ".join(map(str, td)))).encode()
        if t3.rc != 0 or t3.out != want3:
            S.viol("C09:label-permutation", "[%s] labels reordered by %r: stdout %r, expected the transposed spectrum %r" % (tag, perm, t3.out[:150], want3[:150]),
                   dict(wit, twin_map=E.map_json(sm3), perm=perm, replay=R.exact(t3, want3)))
        # twin 4: --samples vs --samples-file
        t4 = E.cli_create(data, smap, samples_via="file")
        S.count("C_twin_runs")
        if t4.rc != base.rc or t4.out != base.out:
            S.viol("C09:samples-file", "[%s] --samples-file differs from --samples for %r: rc %s %r %r vs %r" % (
                tag, E.map_json(smap), t4.rc, t4.out[:150], t4.err[:150], base.out[:150]), dict(wit, replay=R.same(base, t4)))
        # twin 5: unlisted columns replaced by junk (missing, multiallelic, haploid, triploid): only listed samples count
        from .c01 import junk_twin
        cs5 = junk_twin(rng, cs, {s for s, _ in smap})
        if cs5 is not None:
            t5 = E.cli_create(E.encode(cs5, container, rng), smap)
            S.count("C_twin_runs")
            S.count("C_unlisted_junk_twins")
            if t5.rc != 0 or t5.out != base.out:
                S.viol("C09:unlisted-influence", "[%s] junk genotypes in UNLISTED samples changed the run: rc %s stdout %r stderr %r" % (tag, t5.rc, t5.out[:150], t5.err[:200]),
                       dict(wit, twin_vcf=cs5.to_vcf().decode()[:20000], replay=R.same(base, t5)))
        # twin 6: the same samples file with other line conventions (CRLF, missing final terminator)
        body = [(s_ if q is None else "%s\t%s" % (s_, q)) for s_, q in smap]
        for eol, final in (("\r\n", True), ("\r\n", False), ("\n", False)):
            content = eol.join(body) + (eol if final else "")
            f6 = E.tmpfile(content.encode(), ".samples")
            args6 = ["create", "-S", f6]
            t6 = cli.sfs(args6, stdin=data)
            S.count("C_twin_runs")
            S.count("C_samples_file_line_conventions")
            if t6.rc != base.rc or t6.out != base.out:
                S.viol("C09:samples-file-eol", "[%s] samples file with %r line ends%s differs from --samples: rc %s stdout %r stderr %r" % (
                    tag, eol, "" if final else " and no final terminator", t6.rc, t6.out[:120], t6.err[:200]), dict(wit, replay=R.same(base, t6)))
        # twin 7: an EMPTY line in the samples file (start, between entries, end). An empty line names no sample of the input, so the
        # run may reject the file; if it accepts it, every entry before AND after the empty line still counts
        for pos in sorted({0, len(body), rng.randint(1, max(1, len(body) - 1)), rng.randint(0, len(body))}):
            lines7 = body[:pos] + [""] + body[pos:]
            f7 = E.tmpfile(("\n".join(lines7) + "\n").encode(), ".samples")
            t7 = cli.sfs(["create", "-S", f7], stdin=data)
            S.count("C_twin_runs")
            S.count("C_samples_file_empty_lines")
            rejected = t7.rc != 0 and not t7.out and t7.err.strip() and not t7.panicked
            if not rejected and (t7.rc != base.rc or t7.out != base.out):
                S.viol("C09:samples-file-empty-line", "[%s] samples file with an empty line before entry %d of %d is neither rejected nor read completely: rc %s stdout %r stderr %r, all entries give %r" % (
                    tag, pos, len(body), t7.rc, t7.out[:120], t7.err[:200], base.out[:120]), dict(wit, samples_file="\n".join(lines7), replay=R.same(base, t7) if t7.rc == 0 else None))
        # twin 8: a line that is not valid UTF-8 (a Latin-1 name) somewhere in the samples file: it names no sample of the input and
        # cannot even be read as text - the run must fail wherever the line stands, never go on with the entries before it
        for pos in sorted({0, len(body), rng.randint(1, max(1, len(body)))}):
            raw8 = "".join(l_ + "\n" for l_ in body[:pos]).encode() + b"\xe9tienne\tA\n" + "".join(l_ + "\n" for l_ in body[pos:]).encode()
            t8 = cli.sfs(["create", "-S", E.tmpfile(raw8, ".samples")], stdin=data)
            S.count("C_twin_runs")
            S.count("C_samples_file_invalid_utf8")
            if t8.rc == 0 or t8.out or not t8.err.strip() or t8.panicked:
                S.viol("C09:samples-file-invalid-utf8", "[%s] samples file with a non-UTF-8 line before entry %d of %d: rc %s stdout %r stderr %r" % (
                    tag, pos, len(body), t8.rc, t8.out[:120], t8.err[:200]), dict(wit, samples_file_b64=E.b64(raw8)))
        sizes = G.pop_sizes([(s, q) for s, q in dict(smap).items()])
        S.case(key=digest([E.codes(cs), E.map_json(smap)]), nontrivial=len(exp.shape) >= 2 and (len(set(exp.shape)) > 1 or td != [int(x) for x in exp.cells]))
        if i == 0 and p["i"] == 0:
            S.sample({"level": "C", "list": E.map_json(smap), "argv": base.argv, "stdout": base.out.decode()[:200],
                      "label_permutation": perm, "permuted_list": E.map_json(sm3), "permuted_stdout": t3.out.decode()[:200]})
    # error requests
    rng = rng_for(seed, "c09", p["name"], "err")
    cs = G.random_callset(rng, nsamples=3, nrecords=4, complete_only=True, extras=False)
    data = cs.to_vcf()
    bad = [("unknown", [(cs.samples[0], "A"), ("nobody_" + cs.samples[1], "A")], "arg"), ("unknown-file", [("ghost", None)], "file"),
           ("empty-file", [], "file"),
           # as many entries as the input has columns, one of them absent from the input; and more entries than columns
           ("unknown-full-length", [(cs.samples[0], "A"), (cs.samples[1], "B"), ("typo_" + cs.samples[2], "A")], "arg"),
           ("unknown-full-length-file", [(cs.samples[0], None), ("x" + cs.samples[1], None), (cs.samples[2], None)], "file"),
           ("unknown-longer", [(s_, None) for s_ in cs.samples] + [("extra", None)], "arg")]
    for name, sm, via in bad:
        r = E.cli_create(data, sm, samples_via=via)
        S.count("C_error_requests")
        S.case(key="err|%s|%s" % (name, p["name"]), nontrivial=False)
        if r.rc == 0 or r.out or not r.err.strip() or r.panicked:
            S.viol("C09:invalid-list-accepted:" + name, "[C %s] list %r (%s): rc %s stdout %r stderr %r" % (p["name"], sm, via, r.rc, r.out[:100], r.err[:200]),
                   {"level": "C", "argv": r.argv, "input_b64": E.b64(data), "run": r.brief(), "replay": __import__("vf.replay", fromlist=["x"]).reject(r)})


def check_C_odd_names(S, p):
    """Sample names and labels that contain the --samples list syntax characters are legal in a samples FILE (tab separated)."""
    from .. import replay as R
    rng = rng_for(S.seed, "c09", p["name"], "odd")
    cs = G.random_callset(rng, nsamples=5, nrecords=12, p_missing=0.0, p_multi=0.0, extras=False)
    odd = ["a b", "c=d", "e,f", "g h=i", "x.y-z"]
    rng.shuffle(odd)
    cs.samples = odd
    labels = rng.sample(["P Q", "P=R", "S,T", "plain"], rng.randint(1, 3))
    k = rng.randint(len(labels), 5)
    chosen = rng.sample(odd, k)
    assign = labels[:] + [rng.choice(labels) for _ in range(k - len(labels))]
    rng.shuffle(assign)
    smap = list(zip(chosen, assign))
    exp = reference_create(cs, smap)
    data = E.encode(cs, rng.choice(E.CONTAINERS), rng)
    r = E.cli_create(data, smap, samples_via="file")
    S.count("C_base")
    S.count("C_odd_name_files")
    want = expected_text(exp)
    if r.rc != 0 or r.out != want:
        S.viol("C09:odd-names", "[C %s] samples file %r: rc %s stdout %r stderr %r, reference %r" % (p["name"], E.map_json(smap), r.rc, r.out[:120], r.err[:200], want[:120]),
               {"level": "C", "map": E.map_json(smap), "argv": r.argv, "input_b64": E.b64(data), "replay": R.exact(r, want)})
    S.case(key=digest([E.codes(cs), E.map_json(smap), "odd"]), nontrivial=len(exp.shape) >= 2)


def check_C_order_and_pipes(S, p):
    """(1) A site where one listed sample is missing and another is non-diploid: the outcome must not depend on the column order.
    (2) The samples list handed over through a named pipe / /dev/stdin instead of a regular file."""
    import itertools as it, os, threading
    from .. import replay as R
    rng = rng_for(S.seed, "c09", p["name"], "order")
    samples = ["u", "v", "w", "x"]
    listed = [("u", "A"), ("v", "A"), ("w", "B")]
    bad_gt = rng.choice([gt((1,)), gt((0, 0, 0)), gt((0, 1, 1), True)])
    base_gts = {"u": gt((None, None)), "v": bad_gt, "w": gt((0, 1)), "x": gt((1, 1))}
    outcomes = {}
    for perm in it.permutations(samples):
        recs = [Record("c1", 5, [gt((0, 1)) for _ in perm]), Record("c1", 9, [base_gts[s_] for s_ in perm]), Record("c1", 12, [gt((1, 1)) for _ in perm])]
        cs = CallSet(list(perm), [("c1", 1000)], recs)
        r = E.cli_create(cs.to_vcf() if rng.random() < 0.5 else cs.to_bcf(), listed)
        S.count("C_twin_runs")
        S.count("C_column_orders_with_ploidy_error")
        outcomes.setdefault((r.rc != 0, r.out), []).append((perm, r))
    if len(outcomes) > 1 or any(not k[0] or k[1] for k in outcomes):
        (k1, v1) = list(outcomes.items())[0]
        other = list(outcomes.items())[-1][1][0]
        S.viol("C09:column-order-ploidy", "[C %s] a listed sample is missing and another is non-diploid at c1:9: column order %r gives rc %s stdout %r but order %r gives rc %s stdout %r (must fail identically)" % (
            p["name"], v1[0][0], v1[0][1].rc, v1[0][1].out[:60], other[0], other[1].rc, other[1].out[:60]), {"level": "C", "replay": R.same(v1[0][1], other[1])})
    S.case(key=digest(["order", p["name"]]), nontrivial=True)
    # (2) list through pipes
    cs = G.random_callset(rng, nsamples=4, nrecords=8, p_missing=0.0, p_multi=0.0, extras=False)
    smap = gen_map(rng, cs.samples)
    data = cs.to_vcf()
    content = "".join((s_ if q is None else "%s\t%s" % (s_, q)) + "\n" for s_, q in smap).encode()
    base = E.cli_create(data, smap, samples_via="file", via="path")
    fifo = E.tmpfile(b"", ".fifo")
    os.unlink(fifo)
    os.mkfifo(fifo)

    def feed():
        try:
            with open(fifo, "wb") as f:
                f.write(content)
        except OSError:
            pass
    th = threading.Thread(target=feed, daemon=True)
    th.start()
    r1 = cli.sfs(["create", "-S", fifo, E.tmpfile(data, ".vcf")])
    if th.is_alive():
        try:
            os.close(os.open(fifo, os.O_RDONLY | os.O_NONBLOCK))
        except OSError:
            pass
    th.join(timeout=5)
    r2 = cli.sfs(["create", "-S", "/dev/stdin", E.tmpfile(data, ".vcf")], stdin=content)
    S.count("C_twin_runs", 2)
    S.count("C_samples_list_through_pipes", 2)
    for how, r in (("named pipe", r1), ("/dev/stdin", r2)):
        if r.rc != base.rc or r.out != base.out:
            S.viol("C09:samples-file-pipe", "[C %s] samples list through a %s: rc %s stdout %r stderr %r; from a regular file: rc %s stdout %r" % (
                p["name"], how, r.rc, r.out[:80], r.err[:200], base.rc, base.out[:80]), {"level": "C", "list": E.map_json(smap), "replay": R.same(base, r) if how != "named pipe" else None})
    S.case(key=digest(["pipes", p["name"], E.map_json(smap)]), nontrivial=True)


def check_L1(S, p):
    seed = S.seed
    reqs, meta = [], []
    for i in range(p["l1"]):
        rng = rng_for(seed, "c09", p["name"], "L1", i)
        npops = rng.randint(2, 8)
        alphabet = "abAB01"
        names = set()
        while len(names) < npops:
            names.add("".join(rng.choice(alphabet) for _ in range(rng.randint(1, 2))))
        labels = list(names)
        rng.shuffle(labels)
        if rng.random() < 0.3:
            labels[rng.randrange(npops)] = None
        ns = rng.randint(npops, npops + 4)
        samples = ["s%d" % j for j in range(ns + rng.randint(0, 3))]
        listed = rng.sample(samples, ns)
        assign = labels[:] + [rng.choice(labels) for _ in range(ns - npops)]
        rng.shuffle(assign)
        smap = list(zip(listed, assign))
        order = populations(smap)
        # probe record: population j carries a distinctive ALT total
        rec = []
        want_idx = [0] * npops
        for s in samples:
            if s in dict(smap):
                j = order.index(dict(smap)[s])
                c = (j + want_idx[j]) % 3
                want_idx[j] += c
                rec.append(c)
            else:
                rec.append(rng.choice([0, 1, 2, 3, 4]))
        reqs.append({"op": "site_hist", "samples": samples, "map": E.map_json(smap), "project": None, "records": [rec], "fresh": False})
        meta.append((smap, order, want_idx))
    def results():
        # in batches: each reply carries the whole (up to 3^8-cell) spectrum, thousands of them do not fit in memory at once
        for b in range(0, len(reqs), 300):
            for r_ in harness.run_all(reqs[b:b + 300]):
                r_.get("scs", {}).pop("data", None)
                yield r_
    for (smap, order, want_idx), r in zip(meta, results()):
        S.count("L1_maps")
        sizes = [sum(1 for s, q in dict(smap).items() if q == lab) for lab in order]
        wit = {"level": "L1", "map": E.map_json(smap)}
        shape = [2 * z + 1 for z in sizes]
        if "events" not in r or not r["events"]:
            S.viol("C09:L1-fail", "[L1 list %r] %s" % (E.map_json(smap), str(r)[:200]), wit)
            continue
        ev = r["events"][0]
        if r["scs"]["shape"] != shape or ev.get("idx") != want_idx:
            S.viol("C09:axis-assignment", "[L1 list %r] shape %r / probe index %r, expected shape %r (labels in first-appearance order %r) and index %r" % (
                E.map_json(smap), r["scs"]["shape"], ev.get("idx"), shape, order, want_idx), wit)
        S.case(key=digest(E.map_json(smap)), nontrivial=len(set(shape)) > 1 or len(set(want_idx)) > 1)


def check_C_huge_cohort(S, p):
    """Tens of thousands of listed samples (a biobank-sized list: the samples file is well over 1 MiB); the last lines of the file
    introduce a second, small population. Axis lengths 2n+1, the two records land in the cells given by their ALT counts."""
    rng = rng_for(S.seed, "c09", p["name"], "huge")
    na, nb = rng.choice([66000, 70000, 65536]), rng.randint(2, 6)
    names = ["sample_%06d_%s" % (k, "abcdefgh"[k % 8] * 6) for k in range(na + nb)]
    order = list(range(na + nb))
    rng.shuffle(order)                                  # header column order differs from list order
    alt_a = sorted(rng.sample(range(na), 5))
    alt_b = rng.randrange(na, na + nb)
    def col(k, rec):
        if rec == 0:
            return "0/1" if k in alt_a else "0/0"
        return "1|1" if (k == alt_b or k == alt_a[0]) else "0|0"
    head = "##fileformat=VCFv4.3\n##contig=<ID=c1,length=1000>\n##FORMAT=<ID=GT,Number=1,Type=String,Description=\"g\">\n"
    head += "#CHROM\tPOS\tID\tREF\tALT\tQUAL\tFILTER\tINFO\tFORMAT\t" + "\t".join(names[k] for k in order) + "\n"
    recs = "".join("c1\t%d\t.\tA\tC\t.\t.\t.\tGT\t%s\n" % (7 + rec, "\t".join(col(k, rec) for k in order)) for rec in (0, 1))
    vcf = (head + recs).encode()
    listing = "".join("%s\t%s\n" % (names[k], "big" if k < na else "small") for k in range(na + nb)).encode()
    f = E.tmpfile(listing, ".samples")
    r = cli.sfs(["create", "-S", f], stdin=vcf, timeout=300)
    S.count("C_huge_cohort_runs")
    S.observe("samples_file_bytes", len(listing))
    shape = [2 * na + 1, 2 * nb + 1]
    want = {(5, 0): 1, (2, 2): 1}
    ps = E.parse_text_spectrum(r.out) if r.rc == 0 else None
    wit = {"level": "C", "argv": r.argv, "samples": na + nb, "samples_file_bytes": len(listing), "rc": r.rc, "stderr": r.err[:300].decode("latin1"), "stdout_head": r.out[:60].decode("latin1")}
    if ps is None or ps[0] != shape:
        S.viol("C09:huge-cohort", "[C %d + %d listed samples, samples file of %d bytes] rc %s, shape %r, expected %r; stderr %r" % (
            na, nb, len(listing), r.rc, ps[0] if ps else None, shape, r.err[:200]), wit)
    else:
        nz = {(j // shape[1], j % shape[1]): int(float(t)) for j, t in enumerate(ps[1]) if t != "0"}
        if nz != want:
            S.viol("C09:huge-cohort", "[C %d + %d listed samples] non-zero cells %r, expected %r" % (na, nb, sorted(nz.items())[:6], sorted(want.items())), wit)
    # the same list with its LAST entry naming a sample the input does not have: an error, however long the list
    bad_listing = b"".join(listing.splitlines(keepends=True)[:-1]) + b"sample_999999_not_there\tsmall\n"
    rb = cli.sfs(["create", "-S", E.tmpfile(bad_listing, ".samples")], stdin=vcf, timeout=300)
    S.count("C_huge_cohort_runs")
    if rb.rc == 0 or rb.out or not rb.err.strip() or rb.panicked:
        S.viol("C09:huge-cohort:absent-sample-accepted", "[C %d listed samples, the last one absent from the input] rc %s stdout %r stderr %r" % (na + nb, rb.rc, rb.out[:60], rb.err[:200]),
               {"level": "C", "argv": rb.argv, "samples": na + nb, "rc": rb.rc, "stderr": rb.err[:300].decode("latin1")})
    S.case(key=digest(["huge", na, nb, S.seed]), nontrivial=True)


def check_L1_short_records(S, p):
    """Listed samples whose column the genotype reader does not deliver (a record with fewer genotypes than the reader has samples):
    only what was delivered may be looked at - the release and the checked build answer alike, nothing panics."""
    rng = rng_for(S.seed, "c09", p["name"], "short")
    reqs = []
    for _ in range(5):
        ns = rng.randint(3, 8)
        samples = ["s%d" % j for j in range(ns)]
        listed = rng.sample(samples, rng.randint(2, ns))
        if samples[-1] not in listed:
            listed.append(samples[-1])              # a listed sample among the columns that go missing
        smap = [(s_, rng.choice(["A", "B", None])) for s_ in listed]
        recs = ["".join(str(rng.choice([0, 1, 2])) for _ in range(ns))[:rng.choice([ns, ns - 1, ns - 2, 0, 1])] + rng.choice(["", "", "0", "120"]) for _ in range(5)]
        reqs.append({"op": "site_hist", "samples": samples, "map": E.map_json(smap), "project": None, "records": recs, "fresh": False, "after_error": "continue"})
    res = harness.both_builds(S, "C09", reqs, "short_records")
    for q, r in zip(reqs, res):
        if "panic" in r or r.get("died"):
            S.viol("C09:short-record:panic", "[L1 records %r for %d samples] %s" % (q["records"], len(q["samples"]), str(r)[:200]), {"level": "L1", "request": q})
        S.case(key=digest([q["records"], q["map"], "short"]), nontrivial=True)


def shard(S, p):
    if "replay" in p:
        S.inconc("witness carries argv + input for manual replay")
        return
    check_L1_short_records(S, p)
    if p["i"] % 16 == 3:
        check_C_huge_cohort(S, p)
    check_L1(S, p)
    check_C(S, p)
    check_C_odd_names(S, p)
    if p["i"] % 4 == 0:
        check_C_order_and_pipes(S, p)
