"""C15 - npy output conforms to NPY 1.0; every supported numpy dtype is read exactly.

Writer: files produced by write::Builder (L) and `sfs view -O npy` (C) are checked by a NEP-1 parser
written from the spec (vf.oracle.npyfmt) AND loaded by numpy; shapes are chosen so that the header
dict length takes EVERY residue mod 64. Reader: numpy-written files over dtype x byte order x version
with boundary values, plus hand-spelled headers; rejects for Fortran order / unsupported dtypes.
"""
import io, math, struct
import numpy as np
from numpy.lib import format as nf
from .. import harness, cli
from ..common import rng_for, h2f, f2h, digest
from ..engines import create as E
from ..gen import spectra as GS
from ..oracle import npyfmt, spectrum as O

LEVEL = "exploration"
NEEDS = ["harness", "cli", "shim"]
RULE = ("writer: shapes with 1-24 axes (mostly length 1, one or two longer with 1-5 digits) chosen so that len(header dict) covers all 64 residues "
        "mod 64, x value kinds incl. nan/inf/-0/subnormals, at L and via `view -O npy` (also to a non-blocking stdout pipe with a slow reader: give up with a diagnostic, or deliver the file exactly) (stdout and -o with the path absent / empty / holding a longer file / being the input; with and without a --precision option next to it); reader: 10 dtypes x {<, >, |} x versions "
        "{1.0, 2.0, 3.0} written by numpy with boundary values (int min/max, f4 subnormal/max/inf/nan, u8 2^63..2^64-1), x 7 header spellings "
        "(quotes, spacing, key order, trailing commas) and unaligned / over-padded headers (each first confirmed loadable by numpy); input on stdin in pieces that are no multiple of the element size; rejects: Fortran order (2-D, 3-D, with singleton axes, and the bare flag on 1-D / degenerate shapes), dtypes c16 c8 ? f2 S5 U3 M8 m8 O V4. Non-trivial: every case; "
        "distinct = digest(file bytes).")
ASSUMPTIONS = ["numpy %s is the reference reader/writer" % np.__version__, "NEP-1 rules re-implemented from the spec text in vf/oracle/npyfmt.py"]
FLOORS = {"quick": {"evaluations": 600, "distinct_nontrivial": 500, "counts": {"writer_files": 128, "reader_files": 300, "reject_files": 40}},
          "thorough": {"evaluations": 30000, "distinct_nontrivial": 25000, "counts": {"writer_files": 5000, "reader_files": 20000, "reject_files": 400}}}
NSHARD = 16
DTYPES = ["f4", "f8", "i1", "i2", "i4", "i8", "u1", "u2", "u4", "u8"]


def plan(tier, seed):
    q = tier == "quick"
    return [{"name": "s%d" % i, "i": i, "writer_reps": 1 if q else 40, "reader_reps": 1 if q else 60} for i in range(NSHARD)]


def dict_len(shape):
    return len("{'descr': '<f8', 'fortran_order': False, 'shape': (%s,), }" % ", ".join(map(str, shape)))


def shapes_for_residues(rng, residues):
    """For each wanted residue a shape whose header dict length has that residue mod 64."""
    out = {}
    tries = 0
    while len(out) < len(residues) and tries < 200000:
        tries += 1
        d = rng.randint(1, 24)
        shape = [1] * d
        for _ in range(rng.randint(0, 2)):
            shape[rng.randrange(d)] = rng.choice([2, 3, 7, 10, 11, 64, 100, 123, 1000, 4099, 10000])
        if O.prod(shape) > 20000:
            continue
        r = dict_len(shape) % 64
        if r in residues and r not in out:
            out[r] = shape
    return out


def boundary_values(dt, rng, n):
    kind, size = dt[0], int(dt[1:])
    if kind == "f":
        fi = np.finfo("f%d" % size)
        base = [0.0, -0.0, 1.0, -1.0, float(fi.tiny), float(fi.max), float(-fi.max), float(fi.eps), math.inf, -math.inf, math.nan,
                float(np.nextafter(np.dtype("f%d" % size).type(0), np.dtype("f%d" % size).type(1))), 0.1, 1 / 3, 16777217.0]
        vals = base + [rng.uniform(-1e6, 1e6) for _ in range(max(0, n - len(base)))]
        return np.array(vals[:max(n, len(base))], dtype="f%d" % size)
    ii = np.iinfo(dt)
    base = [0, 1, ii.max, ii.min, ii.max - 1, ii.min + 1 if ii.min else 2, ii.max // 2 + 1, ii.max // 2, 127 % (ii.max + 1)]
    if dt in ("u8", "i8"):
        base += [2 ** 53, 2 ** 53 + 1, 2 ** 53 - 1, 2 ** 62 + 2 ** 9 + 1, 9007199254740993]
    if dt == "u8":
        base += [2 ** 63, 2 ** 63 + 1, 2 ** 64 - 1, 2 ** 63 + 2 ** 10, 2 ** 64 - 2 ** 10]
    vals = base + [rng.randint(ii.min, ii.max) for _ in range(max(0, n - len(base)))]
    return np.array(vals, dtype=dt)


def check_writer(S, p):
    seed = S.seed
    residues = [r for r in range(64) if r % NSHARD == p["i"]]
    for rep in range(p["writer_reps"]):
        rng = rng_for(seed, "c15", p["name"], "w", rep)
        shapes = shapes_for_residues(rng, set(residues))
        reqs, meta = [], []
        for res, shape in shapes.items():
            for kind in ("int", "special"):
                vals = GS.values(rng, O.prod(shape), kind)
                reqs.append({"op": "spec", "do": "write", "shape": shape, "data": GS.hexes(vals), "fmt": "npy", "precision": 6})
                meta.append((res, shape, vals))
        for (res, shape, vals), r in zip(meta, harness.run_all(reqs)):
            S.count("writer_files")
            S.observe("header_dict_length_residues_mod_64", res)
            wit = {"level": "L", "shape": shape, "residue": res}
            bits = GS.hexes(vals)
            if "bytes" not in r or not r.get("ok"):
                from ..common import panic_sig
                S.viol("C15:panic:%s" % panic_sig(str(r.get("panic", r))), "[L write npy shape %r (dict length %d = %d mod 64)] failed: %s" % (shape, dict_len(shape), res, str(r)[:300]), wit)
                continue
            data = bytes.fromhex(r["bytes"])
            probs = npyfmt.check_written_by_sfs(data, shape, bits)
            try:
                arr = np.load(io.BytesIO(data), allow_pickle=False)
                if list(arr.shape) != shape or arr.dtype != np.dtype("<f8") or arr.tobytes() != b"".join(struct.pack("<d", v) for v in vals) or np.isfortran(arr) and arr.ndim > 1:
                    probs.append("numpy loads a different array (shape %r dtype %s)" % (arr.shape, arr.dtype))
            except Exception as e:
                probs.append("numpy cannot load the file: %s" % e)
            if probs:
                S.viol("C15:writer", "[L write npy shape %r (dict length %d mod 64)] %s" % (shape, res, "; ".join(probs)[:500]), dict(wit, file_hex=data.hex()[:1000]))
            S.case(key=digest(data), nontrivial=True)
            # the same through the CLI
            if rep == 0:
                inp = GS.npy_bytes(shape, vals)
                for how in ("stdout", "file"):
                    # --precision is a text option: given next to -O npy (before or after it) it must not change the npy output
                    rngc = rng_for(seed, "c15", p["name"], "cli", res)
                    extra = rngc.choice([[], [], ["--precision", "0"], ["--precision", "12"]])
                    cargs = ["view"] + (extra + ["-O", "npy"] if rngc.random() < 0.5 else ["-O", "npy"] + extra)
                    if how == "stdout":
                        rr = cli.sfs(cargs, stdin=inp)
                        out = rr.out
                    else:
                        # the output path absent, empty, or holding something longer (an earlier, larger spectrum; garbage; the input)
                        from ..engines import outpath
                        rr, out, state, _ = outpath.run_to_path(rngc, cargs, inp)
                        out = out or b""
                        S.observe("output_path_state", state)
                        if state == "in-place" and rr.rc != 0:
                            continue
                    S.count("writer_files")
                    S.count("writer_cli_files")
                    probs = [] if rr.rc == 0 else ["exit %s: %r" % (rr.rc, rr.err[:200])]
                    if rr.rc == 0:
                        probs = npyfmt.check_written_by_sfs(out, shape, bits)
                    if probs:
                        S.viol("C15:writer:cli" + (":panic" if rr.panicked else ""), "[C view -O npy (%s) shape %r (dict length %d mod 64)] %s" % (how, shape, res, "; ".join(probs)[:400]),
                               {"level": "C", "argv": rr.argv, "input_b64": E.b64(inp)})
                    S.case(key=digest([out.hex()[:2000], how]), nontrivial=True)
            if res == residues[0] and rep == 0:
                S.sample({"level": "L", "shape": shape, "dict_length_mod_64": res, "preamble_hex": data[:10].hex(), "header": data[10:10 + struct.unpack("<H", data[8:10])[0]].decode("latin1")})


def numpy_file(arr, version):
    buf = io.BytesIO()
    nf.write_array(buf, arr, version=version)
    return buf.getvalue()


def check_reader(S, p):
    seed = S.seed
    combos = []
    for dt in DTYPES:
        orders = ["<", ">"] if int(dt[1:]) > 1 else ["|", "<", ">"]
        for o in orders:
            for v in ((1, 0), (2, 0), (3, 0)):
                combos.append((dt, o, v))
    mine = [c for k, c in enumerate(combos) if k % NSHARD == p["i"]]
    reqs, meta = [], []
    for rep in range(p["reader_reps"]):
        for (dt, o, v) in mine:
            rng = rng_for(seed, "c15", p["name"], "r", rep, dt, o, str(v))
            arr = boundary_values(dt, rng, 24)
            shape_opts = [[len(arr)]]
            for a in (2, 3, 4):
                if len(arr) % a == 0:
                    shape_opts.append([a, len(arr) // a])
            shape = rng.choice(shape_opts)
            arr = arr.reshape(shape)
            # numpy-written
            if o == "|":
                typed = arr
            else:
                typed = arr.astype(np.dtype(o + dt))
            data = numpy_file(typed, v)
            expect = typed.astype("<f8").reshape(-1)
            reqs.append({"op": "read_npy", "data": data.hex()})
            meta.append(("numpy", dt, o, v, shape, expect, data))
            # hand-spelled headers around the same payload
            descr = (o + dt)
            payload = typed.tobytes()
            for variant in npyfmt.VARIANTS:
                if variant == "shape-trailing-comma" and len(shape) == 1:
                    continue
                d2 = npyfmt.build(npyfmt.spell(descr, False, shape, variant), payload, v)
                reqs.append({"op": "read_npy", "data": d2.hex()})
                meta.append((variant, dt, o, v, shape, expect, d2))
            # alignment is only recommended: unaligned and over-padded headers are valid and numpy reads them
            for name, kw in (("unaligned", {"align": 1}), ("over-padded", {"extra_pad": rng.choice([1, 7, 64, 200])})):
                d3 = npyfmt.build(npyfmt.spell(descr, False, shape, "numpy"), payload, v, **kw)
                chk = np.load(io.BytesIO(d3), allow_pickle=False)
                if chk.tobytes() == typed.tobytes():
                    reqs.append({"op": "read_npy", "data": d3.hex()})
                    meta.append((name, dt, o, v, shape, expect, d3))
    if p["i"] % 4 == 1:
        # files with 2^15 .. 2^17 values of every width (a bulk decoder that splits the payload must split it by the FILE's item size)
        rngb = rng_for(seed, "c15", p["name"], "big")
        for _ in range(2):
            dt, o = rngb.choice([("f4", "<"), ("i2", "<"), ("u2", ">"), ("i4", ">"), ("u1", "|"), ("f8", ">"), ("i8", "<"), ("i1", "|"), ("u4", "<")])
            n_ = rngb.choice([65536, 65537, 70001, 32768, 131072, 100003])
            base_ = (np.arange(n_) * 7919) % 251
            typed = base_.astype(np.dtype((o if o != "|" else "") + dt))
            shape = [n_] if rngb.random() < 0.5 or n_ % 2 else [2, n_ // 2]
            typed = typed.reshape(shape)
            v = rngb.choice([(1, 0), (2, 0)])
            data = numpy_file(typed, v)
            reqs.append({"op": "read_npy", "data": data.hex()})
            meta.append(("numpy-big", dt, o, v, shape, typed.astype("<f8").reshape(-1), data))
            S.count("reader_big_files")
    for (variant, dt, o, v, shape, expect, data), r in zip(meta, harness.run_all(reqs)):
        S.count("reader_files")
        S.count("reader_%s" % ("numpy_written" if variant == "numpy" and False else variant))
        S.observe("reader_dtype_order_version", "%s%s v%d" % (o, dt, v[0]))
        tag = "L read_npy %s%s v%d.%d %s shape %r" % (o, dt, v[0], v[1], variant, shape)
        wit = {"level": "L", "file_hex": data.hex() if len(data) < 100000 else None, "file": "numpy array (arange(n) * 7919) %% 251 as %s%s, shape %r, npy version %r" % (o, dt, shape, v)}
        if "data" not in r:
            S.viol("C15:reader-rejects:%s" % variant, "[%s] valid file rejected: %s" % (tag, str(r)[:200]), wit)
        else:
            want = [f2h(float(x)) for x in expect]
            got = r["data"]
            # NaN payloads: numpy's f4->f8 conversion and Rust's `as f64` both preserve the payload bits; compare numerically for NaN
            bad = [(i, g, w) for i, (g, w) in enumerate(zip(got, want)) if g != w and not (math.isnan(h2f(g)) and math.isnan(h2f(w)))]
            if r["shape"] != shape or len(got) != len(want) or bad:
                S.viol("C15:reader-value:%s%s" % (o, dt), "[%s] values differ from numpy's astype('<f8') at (index, read, numpy) %r" % (tag, [(i, h2f(g), h2f(w)) for i, g, w in bad[:4]]), wit)
        S.case(key=digest(data), nontrivial=True)
        if variant == "key-order" and dt == "u8" and v == (1, 0) and o == "<":
            S.sample({"level": "L", "file": tag, "header": data[10:80].decode("latin1"), "first_values_read": [h2f(x) for x in r.get("data", [])[:6]], "numpy": [float(x) for x in expect[:6]]})
    # rejects
    rng = rng_for(seed, "c15", p["name"], "rej")
    rej = []
    f2d = np.arange(6, dtype="<f8").reshape(2, 3)
    rej.append(("fortran-2d", numpy_file(np.asfortranarray(f2d), (1, 0))))
    rej.append(("fortran-3d-v2", numpy_file(np.asfortranarray(np.arange(24, dtype="<i4").reshape(2, 3, 4)), (2, 0))))
    # Fortran order with singleton axes (numpy really writes fortran_order True for these) and the flag on shapes where the two
    # orders coincide: a file that SAYS Fortran order is rejected, whatever its shape
    for shp in ((2, 1, 3), (1, 2, 3), (3, 5, 1), (2, 2, 1, 2), (1, 1, 4, 2), (4, 1, 1, 3)):
        a = np.asfortranarray(np.arange(int(np.prod(shp)), dtype="<f8").reshape(shp))
        f = numpy_file(a, (1, 0))
        if b"'fortran_order': True" in f[:200]:
            rej.append(("fortran-singleton %s" % "x".join(map(str, shp)), f))
    for shp in ((5,), (1, 5), (5, 1), (1, 1, 1), (3, 3)):
        pay = np.arange(int(np.prod(shp)), dtype="<f8").tobytes()
        rej.append(("fortran-flag %s" % "x".join(map(str, shp)), npyfmt.build("{'descr': '<f8', 'fortran_order': True, 'shape': (%s,), }" % ", ".join(map(str, shp)), pay)))
    for dt in ("<c16", "<c8", "|b1", "<f2", "|S5", "<U3", "<M8[s]", "<m8[ns]", "|V4"):
        try:
            a = np.zeros(4, dtype=dt)
            rej.append(("dtype " + dt, numpy_file(a, (1, 0))))
        except Exception:
            pass
    rej.append(("dtype |O", npyfmt.build("{'descr': '|O', 'fortran_order': False, 'shape': (2,), }", b"\x80\x03]q\x00.")))
    rej.append(("record dtype", npyfmt.build("{'descr': [('a', '<f8'), ('b', '<i4')], 'fortran_order': False, 'shape': (1,), }", b"\0" * 12)))
    reqs = [{"op": "read_npy", "data": d.hex()} for _, d in rej]
    for (name, d), r in zip(rej, harness.run_all(reqs)):
        S.count("reject_files")
        if "panic" in r or r.get("died"):
            from ..common import panic_sig
            S.viol("C15:panic:%s" % panic_sig(str(r.get("panic", ""))), "[L read_npy %s] panicked: %s" % (name, str(r)[:200]), {"level": "L", "file_hex": d.hex()})
        elif "data" in r:
            S.viol("C15:reader-accepts:%s" % name.split()[0], "[L read_npy %s] must be rejected but was read as shape %r" % (name, r["shape"]), {"level": "L", "file_hex": d.hex()})
        rr = cli.sfs(["view"], stdin=d)
        S.count("reject_files")
        if rr.rc == 0 or rr.out or rr.panicked:
            S.viol("C15:reader-accepts:cli:%s" % name.split()[0], "[C view on %s] rc %s stdout %r stderr %r" % (name, rr.rc, rr.out[:80], rr.err[:200]), {"level": "C", "input_b64": E.b64(d), "replay": __import__("vf.replay", fromlist=["x"]).reject(rr)})
        S.case(key=digest(d), nontrivial=True)


def check_reader_pieces(S, p):
    """npy on stdin arriving in pieces that are no multiple of the element size (the program drains the pipe between them):
    the shim makes every read() return 1000 / 13 / 4099 bytes."""
    from .c18 import shim_run
    rng = rng_for(S.seed, "c15", p["name"], "pieces")
    dt, o = rng.choice([("f8", "<"), ("i4", ">"), ("u2", "<"), ("f4", "<"), ("i8", ">")])
    n = rng.choice([1500, 3000, 5000])
    arr = boundary_values(dt, rng, n)[:n].astype(np.dtype(o + dt))
    data = numpy_file(arr, rng.choice([(1, 0), (2, 0)]))
    base = cli.sfs(["view", "-O", "npy"], stdin=data)
    for piece in (1000, 13, 4099, 7):
        r, log = shim_run(["view", "-O", "npy"], stdin_bytes=data, env_extra={"FAILIO_READ_FD": "0", "FAILIO_READ_CHUNKS": str(piece), "FAILIO_READ_REST": str(piece)})
        S.count("reader_files")
        S.count("reader_stdin_pieces")
        if base.rc != 0 or r.rc != base.rc or r.out != base.out:
            S.viol("C15:reader-pieces", "[C view -O npy, %d %s%s values on stdin in pieces of %d bytes] rc %s stderr %r (all at once: rc %s)" % (
                n, o, dt, piece, r.rc, r.err[:200], base.rc), {"level": "S", "input_b64": E.b64(data[:200000]), "piece": piece})
        S.case(key=digest([data.hex()[:2000], piece]), nontrivial=True)


def check_nonblocking_stdout(S, p):
    """`view -O npy` of a few hundred KB to a NON-BLOCKING stdout pipe with a slow reader (EAGAIN whenever the pipe is full): the run may
    give up with a diagnostic, but if it reports success the reader has received exactly the file - nothing repeated, nothing missing."""
    rng = rng_for(S.seed, "c15", p["name"], "nonblock")
    n = rng.choice([20000, 30000, 50000])
    vals = [rng.uniform(-1000, 1000) for _ in range(n)] + [213000.0, 4106.0, 10.0] * 40      # doubles whose bytes contain 0x0A
    rng.shuffle(vals)
    shape = [len(vals)] if rng.random() < 0.5 else [2, len(vals) // 2]
    vals = vals[:O_prod(shape)]
    inp = GS.npy_bytes(shape, vals)
    for args in (["view", "-O", "npy"], ["view", "--precision", "4"]):
        ref = cli.sfs(args, stdin=inp)
        for rep in range(2):
            r = cli.sfs_nonblocking_stdout(args, inp, pause=rng.choice([0.001, 0.003]))
            S.count("nonblocking_stdout_runs")
            S.observe("nonblocking_stdout_outcome", "exit %s%s" % (r.rc, " with diagnostic" if r.err.strip() else ""))
            gave_up = r.rc != 0 and r.err.strip() and not r.panicked and not r.signal
            if not gave_up and not (r.rc == 0 and r.out == ref.out):
                S.viol("C15:writer:nonblocking-stdout", "[C %s, %d values, to a non-blocking pipe with a slow reader] rc %s stderr %r; %d bytes arrived, the file has %d%s" % (
                    " ".join(args), len(vals), r.rc, r.err[:160], len(r.out), len(ref.out),
                    "" if r.out[:len(ref.out)] != ref.out else " (the file, then more)"), {"level": "C", "argv": r.argv, "values": len(vals), "transport": "O_NONBLOCK pipe, slow reader"})
            S.case(key=digest([args, len(vals), rep, "nonblock"]), nontrivial=True)


def O_prod(shape):
    p_ = 1
    for x in shape:
        p_ *= x
    return p_


def shard(S, p):
    if "replay" in p:
        w = p["replay"]
        if "file_hex" in w:
            r = harness.run_all([{"op": "read_npy", "data": w["file_hex"]}])[0]
            S.inconc("replayed read_npy: %s" % str(r)[:300])
        else:
            S.inconc("witness carries the file / argv for manual replay")
        return
    check_writer(S, p)
    check_reader(S, p)
    check_reader_pieces(S, p)
    if p["i"] % 8 == 5:
        check_nonblocking_stdout(S, p)
