"""C08 - genotype to allele-count classification is total and exact.

The GT alphabet {., 0, 1, 2, 3, 70} x {/, |} x ploidy 1..3 (942 strings) is enumerated exhaustively.
Each string gets its own one-record input so that attribution is unambiguous, in the selected and in
the unselected role, through the VCF text path and the BCF binary path, at L2 (genotype reader
through the hook: per-sample classification codes) and at C (exit status, stdout, -vv trace lines).
"""
import itertools
from .. import harness
from ..common import digest, panic_sig
from ..engines import create as E
from ..gen.vcfgen import CallSet, Record, parse_gt, gt_str
from ..gen import vcfgen
from ..oracle.callset import classify

LEVEL = "exploration"
NEEDS = ["harness", "cli"]
EXHAUSTIVE = {"quick": True, "thorough": True}
RULE = ("exhaustive: every GT string over alleles {., 0, 1, 2, 3, 70}, separators {/, |}, ploidy 1-3 (942 strings; the lone '.' is VCF's "
        "missing-VALUE token, not a ploidy-1 genotype, and is excluded from the oracle's domain - 941 classified), each in its own "
        "one-record two-sample input, x role {selected, unselected, one of two selected samples next to a complete/missing/multiallelic one, before and after it, without projection and (every diploid string) under EVERY projection target of one population of two samples (0-4 chromosomes, odd and even shapes, --project-shape and --project-individuals) and of two one-sample populations (0-2 chromosomes each) - whether the site still counts then depends on the classification} x container {vcf, raw bcf, bgzf bcf, bgzf vcf}; quick runs L2 for all and C "
        "for vcf + raw bcf, thorough all four containers at C. Further: records without a GT key whose first FORMAT field is a String that looks like a genotype (PGT `0|1`), a filter name, an integer pair, or that have no FORMAT field at all; a seventh of the strings as the LAST of 1025 / 2051 / 4097 sample columns; every diploid string with a leading separator (VCF 4.4 `|0|1`, `/1/1`) == its plain spelling; every GT string over {., 0} at records without an ALT allele; a non-diploid genotype in an unselected column that precedes the selected one. A supplementary (not exhaustive) sweep uses allele indices 255..2^63-1 around powers of two in the VCF path. Non-trivial: every string except 0/0; distinct = (string, role, container, level).")
ASSUMPTIONS = ["'./2' style strings (missing AND multiallelic) may be reported with either reason; only 'skipped' is required",
               "allele 70 forces an int16 GT vector in BCF"]
FLOORS = {"quick": {"evaluations": 5000, "distinct_nontrivial": 5000, "counts": {"L2_classifications": 3700, "C_runs": 3700, "C_pair_runs": 5000, "C_big_allele_runs": 200}},
          "thorough": {"evaluations": 9000, "distinct_nontrivial": 9000, "counts": {"L2_classifications": 3700, "C_runs": 7400, "C_pair_runs": 5000}}}
NSHARD = 32
ALLELES = [None, 0, 1, 2, 3, 70]
ALTS = ["C", "G", "T"] + ["A" + "".join("ACGT"[(i >> (2 * j)) & 3] for j in range(4)) for i in range(70)]


def alphabet():
    out = []
    for ploidy in (1, 2, 3):
        for alleles in itertools.product(ALLELES, repeat=ploidy):
            for ph in itertools.product([False, True], repeat=ploidy - 1):
                out.append((tuple(alleles), tuple(ph)))
    return out


def plan(tier, seed):
    al = alphabet()
    assert len(al) == 942
    cont_c = ["vcf", "rawbcf"] if tier == "quick" else ["vcf", "rawbcf", "bcf", "vcf.gz"]
    return [{"name": "s%d" % i, "i": i, "gts": [gt_str(g) for g in al[i::NSHARD]], "cont_c": cont_c} for i in range(NSHARD)]


def make_cs(g, role, other="0/1", nalt=None, swap_columns=False):
    other = parse_gt(other)
    maxa = max([a for a in g[0] if a is not None] + [1])
    gts = [g, other] if role in ("selected", "first") else [other, g]
    maxa = max(maxa, 2) if nalt is None else nalt
    names = ["sel", "oth"]
    if swap_columns:
        gts, names = gts[::-1], names[::-1]
    rec = Record("ctg7", 4242, gts, ref="A", alts=ALTS[:maxa])
    # the record's contig is neither the first header line nor (in BCF) at the dictionary index of its line: messages must still name it
    cs = CallSet(names, [("ctg1", 5000), ("ctg7", 100000), ("ctg9", 70000)], [rec])
    cs.contig_perm = [1, 2, 0]
    return cs


PROJ_VARIANTS = [[2], [0], [1], [3], [4], [0, 0], [0, 2], [2, 0], [1, 1], [2, 1], [0, 1], [1, 2], [2, 2], [1, 0]]
CODE = {"missing": 3, "multi": 4, "ploidy": 5}


def expected_code(g):
    c = classify(g)
    return c[1] if c[0] == "geno" else CODE[c[0]]


BIG = [255, 256, 257, 511, 512, 65535, 65536, 65537, 4294967295, 4294967296, 4294967297, 9223372036854775807]


def big_allele_sweep(S, p):
    """Beyond the exhaustive alphabet: allele indices around powers of two (VCF text path), where a narrowing
    conversion would wrap. Every diploid pair with such an index is multiallelic (or missing when paired with '.')."""
    strings = []
    for a in BIG:
        for other in (0, 1, None, a, 2):
            for sep in "/|":
                strings.append("%s%s%s" % ("." if other is None else other, sep, a))
                strings.append("%s%s%s" % (a, sep, "." if other is None else other))
        strings.append(str(a))
        strings.append("0/%d/1" % a)
    mine = [s_ for k, s_ in enumerate(strings) if k % NSHARD == p["i"]]
    for s_ in mine:
        g = parse_gt(s_)
        c = classify(g)
        cs = CallSet(["sel", "oth"], [("ctg7", 100000)], [Record("ctg7", 4242, [g, parse_gt("0/1")], ref="A", alts=["C", "G"])])
        data = cs.to_vcf()
        r = E.cli_create(data, [("sel", None)], extra=["-vv"])
        S.count("C_runs")
        S.count("C_big_allele_runs")
        from .. import replay as R
        tag = "C vcf GT %s (allele index beyond the enumerated alphabet)" % s_
        if c[0] == "ploidy":
            wit = {"gt": s_, "level": "C", "argv": r.argv, "input_b64": E.b64(data), "run": r.brief(), "replay": R.reject(r, "ctg7:4242")}
            if r.panicked or r.rc == 0 or r.out or b"ctg7:4242" not in r.err:
                S.viol("C08:ploidy:big-allele", "[%s] must fail naming the site: rc %s stdout %r stderr %r" % (tag, r.rc, r.out[:80], r.err[:200]), wit)
        else:
            wit = {"gt": s_, "level": "C", "argv": r.argv, "input_b64": E.b64(data), "run": r.brief(), "replay": R.exact(r, b"#SHAPE=<3>\n0 0 0\n")}
            if r.panicked or r.rc != 0 or r.out != b"#SHAPE=<3>\n0 0 0\n":
                S.viol("C08:class:big-allele", "[%s] must be skipped (not called): rc %s stdout %r stderr %r" % (tag, r.rc, r.out[:80], r.err[:200]), wit)
        S.case(key="CB|%s" % s_, nontrivial=True)


def no_alt_and_column_order(S, p):
    """(1) Records WITHOUT an ALT allele (ALT '.', monomorphic sites of all-sites VCFs): every GT string over {., 0}, ploidy 1-3.
    (2) A non-diploid genotype in an UNSELECTED sample whose column comes BEFORE the selected one."""
    from .. import replay as R
    strings = []
    for ploidy in (1, 2, 3):
        for alleles in itertools.product([None, 0], repeat=ploidy):
            for ph in itertools.product([False, True], repeat=ploidy - 1):
                strings.append(gt_str((tuple(alleles), tuple(ph))))
    jobs = []
    for s_ in strings:
        if s_ != ".":
            for container in ("vcf", "rawbcf", "vcf.gz"):
                jobs.append(("no-alt", s_, container))
    for s_ in [gt_str(g_) for g_ in alphabet() if len(g_[0]) != 2][::3]:
        if s_ != ".":
            for container in ("vcf", "rawbcf"):
                jobs.append(("unselected-first", s_, container))
    for k, (what, s_, container) in enumerate(jobs):
        if k % NSHARD != p["i"]:
            continue
        g = parse_gt(s_)
        c = classify(g)
        if any(a is not None and a >= 63 for a in g[0]) and container != "vcf":
            continue
        if what == "no-alt":
            cs = make_cs(g, "selected", other="0/0", nalt=0)
            r = E.cli_create(E.encode(cs, container, None, layout="single"), [("sel", None)], extra=["-vv"])
            S.count("C_no_alt_runs")
            if c[0] == "ploidy":
                okk = r.rc != 0 and not r.out and b"ctg7:4242" in r.err
                rp = R.reject(r, "ctg7:4242")
            else:
                want = b"#SHAPE=<3>\n1 0 0\n" if c[0] == "geno" else b"#SHAPE=<3>\n0 0 0\n"
                okk = r.rc == 0 and r.out == want
                rp = R.exact(r, want)
            if not okk or r.panicked:
                S.viol("C08:no-alt:%s" % container, "[C %s GT %s at a record without ALT allele] rc %s stdout %r stderr %r" % (container, s_, r.rc, r.out[:60], r.err[:160]),
                       {"gt": s_, "level": "C", "argv": r.argv, "run": r.brief(), "replay": rp})
        else:
            cs = make_cs(g, "unselected", swap_columns=True)      # columns: oth (odd genotype) first, sel second; only sel is listed
            r = E.cli_create(E.encode(cs, container, None, layout="single"), [("sel", None)])
            S.count("C_unselected_first_runs")
            if r.rc != 0 or r.out != b"#SHAPE=<3>\n0 1 0\n":
                S.viol("C08:unselected-first:%s" % container, "[C %s GT %s in an unselected sample whose column precedes the selected one] rc %s stdout %r stderr %r" % (
                    container, s_, r.rc, r.out[:60], r.err[:160]), {"gt": s_, "level": "C", "argv": r.argv, "run": r.brief(), "replay": R.exact(r, b"#SHAPE=<3>\n0 1 0\n")})
        S.count("C_runs")
        S.case(key="CX|%s|%s|%s" % (what, s_, container), nontrivial=True)


def leading_separator_sweep(S, p):
    """VCF 4.4 lets a genotype start with a separator giving the phase of its first allele (`|0|1`, `/1/1`, `|./1`): every diploid string
    of the alphabet with either separator in front must be classified exactly like the plain spelling (vcf and vcf.gz)."""
    for s_ in p["gts"]:
        g = parse_gt(s_)
        if len(g[0]) != 2:
            continue
        cs = make_cs(g, "selected")
        plain = cs.to_vcf()
        needle = b"GT\t" + s_.encode() + b"\t"
        if plain.count(needle) != 1:
            continue
        base = E.cli_create(plain, [("sel", None)], extra=["-vv"])
        for lead in ("|", "/"):
            text = plain.replace(needle, b"GT\t" + lead.encode() + s_.encode() + b"\t")
            for container in ("vcf", "vcf.gz"):
                data = text if container == "vcf" else vcfgen.bgzf(text)
                r = E.cli_create(data, [("sel", None)], extra=["-vv"])
                S.count("C_runs")
                S.count("C_leading_separator_runs")
                from .. import replay as R
                if r.rc != base.rc or r.out != base.out or E.parse_stderr(r.err)[2] != E.parse_stderr(base.err)[2]:
                    S.viol("C08:leading-separator:%s" % container, "[C %s GT %s%s] differs from the plain spelling %s: rc %s stdout %r stderr %r vs rc %s stdout %r" % (
                        container, lead, s_, s_, r.rc, r.out[:80], r.err[:160], base.rc, base.out[:80]),
                        {"gt": lead + s_, "level": "C", "argv": r.argv, "input_b64": E.b64(data), "run": r.brief(), "replay": R.same(base, r)})
                S.case(key="LS|%s|%s|%s" % (lead, s_, container), nontrivial=True)


def no_gt_sweep(S, p):
    """Records whose FORMAT has NO GT key; the first field is String-typed and may LOOK like a genotype (GATK's PGT `0|1`), or is a filter
    name, an integer pair (AD) - or there is no FORMAT field at all. The sample has no genotype: missing, in every container."""
    variants = [({"PGT": v_, "PID": "7_A_C"}, "PGT=%s" % v_) for v_ in ("0|1", "1|0", "1|1", "0/1", "1/1", "0|0", "0/0/1", "1", ".")] + \
               [({"FT": v_, "DP": 12}, "FT=%s" % v_) for v_ in ("PASS", "lowGQ", "0/1", ".")] + [({"AD": [4, 2]}, "AD=4,2"), ({"AD": [2, 4], "DP": 6}, "AD=2,4"), ({}, "no FORMAT")]
    fmt_defs = {"GT": ("1", "String"), "PGT": ("1", "String"), "PID": ("1", "String"), "FT": ("1", "String"), "DP": ("1", "Integer"), "AD": ("R", "Integer")}
    for k, (fields, name) in enumerate(variants):
        if k % 8 != p["i"] % 8:
            continue
        for other in ("0/1", "./."):
            og = parse_gt(other)
            rec0 = Record("ctg7", 4000, [parse_gt("0/0"), parse_gt("0/1")], ref="A", alts=["C"])
            rec = Record("ctg7", 4242, [((None, None), (False,)), ((None, None), (False,))], ref="A", alts=["C"], no_gt=True,
                         extra_fmt={f_: [v_, (v_ if other == "0/1" else ([None, None] if isinstance(v_, list) else None))] for f_, v_ in fields.items()})
            cs = CallSet(["sel", "oth"], [("ctg1", 5000), ("ctg7", 100000)], [rec0, rec], fmt_defs=fmt_defs)
            for container in ("vcf", "vcf.gz", "rawbcf", "bcf"):
                data = E.encode(cs, container, None, layout="single")
                for sel in ([("sel", None)], [("sel", None), ("oth", None)]):
                    r = E.cli_create(data, sel, extra=["-v"])
                    S.count("C_runs")
                    S.count("C_no_gt_runs")
                    m = 2 * len(sel)
                    cells = [0] * (m + 1)
                    cells[0 if len(sel) == 1 else 1] = 1          # only the first, ordinary record counts
                    want = ("#SHAPE=<%d>\n%s\n" % (m + 1, " ".join(map(str, cells)))).encode()
                    if r.rc != 0 or r.out != want or r.panicked:
                        from .. import replay as R
                        S.viol("C08:no-gt:%s" % container, "[C %s record with %s and no GT key, %d selected] rc %s stdout %r stderr %r; expected %r" % (
                            container, name, len(sel), r.rc, r.out[:80], r.err[:200], want), {"level": "C", "argv": r.argv, "input_b64": E.b64(data), "run": r.brief(), "replay": R.exact(r, want)})
                    S.case(key="NG|%s|%s|%s|%d" % (name, other, container, len(sel)), nontrivial=True)


def wide_cohort_sweep(S, p):
    """The genotype under test sits in the LAST column of a cohort of more than a thousand samples (1025, 2051, 4097 columns; every
    other sample 0/0) and is the only selected sample, or selected together with the first: it must be classified like anywhere else."""
    for k_, s_ in enumerate(p["gts"][::7]):
        g = parse_gt(s_)
        if g == ((None,), ()):
            continue
        c = classify(g)
        n = [1025, 2051, 4097][(k_ + p["i"]) % 3]
        names = ["w%04d" % j for j in range(n - 1)] + ["sel"]
        maxa = max([a for a in g[0] if a is not None] + [1])
        rec = Record("ctg7", 4242, [((0, 0), (False,))] * (n - 1) + [g], ref="A", alts=ALTS[:max(maxa, 2)])
        cs = CallSet(names, [("ctg1", 5000), ("ctg7", 100000)], [rec])
        for container in ("vcf", "rawbcf"):
            data = E.encode(cs, container, None, layout="single")
            for sel in ([("sel", None)], [("w0000", None), ("sel", None)]):
                r = E.cli_create(data, sel, samples_via="file" if len(sel) > 1 else "arg")
                S.count("C_runs")
                S.count("C_wide_cohort_runs")
                m = 2 * len(sel)
                if c[0] == "ploidy":
                    okk = r.rc != 0 and not r.out and b"ctg7:4242" in r.err
                    want = "failure naming ctg7:4242"
                else:
                    cells = [0] * (m + 1)
                    if c[0] == "geno":
                        cells[c[1]] = 1
                    want = ("#SHAPE=<%d>\n%s\n" % (m + 1, " ".join(map(str, cells)))).encode()
                    okk = r.rc == 0 and r.out == want
                if r.panicked or r.signal:
                    S.viol("C08:panic:%s:%s" % ("bcf" if "bcf" in container else "vcf", panic_sig(r.err) if r.err.strip() else "signal"),
                           "[C %s GT %s in the last of %d columns] panicked/killed: rc %s %r" % (container, s_, n, r.rc, r.err[:300]),
                           {"gt": s_, "level": "C", "argv": r.argv, "columns": n, "run": r.brief()})
                elif not okk:
                    S.viol("C08:wide-cohort:%s" % container, "[C %s GT %s in the last of %d columns, %d selected] rc %s stdout %r stderr %r; expected %r" % (
                        container, s_, n, len(sel), r.rc, r.out[:80], r.err[:160], want if isinstance(want, str) else want[:80]),
                        {"gt": s_, "level": "C", "argv": r.argv, "columns": n, "run": r.brief()})
                S.case(key="WC|%s|%s|%d|%d" % (s_, container, n, len(sel)), nontrivial=True)


def shard(S, p):
    if "replay" not in p:
        wide_cohort_sweep(S, p)
        no_gt_sweep(S, p)
        big_allele_sweep(S, p)
        no_alt_and_column_order(S, p)
        leading_separator_sweep(S, p)
    gts = p["gts"] if "replay" not in p else [p["replay"]["gt"]]
    cont_c = p.get("cont_c", ["vcf", "rawbcf", "bcf", "vcf.gz"])
    # ---------------- L2: classification codes from the genotype reader
    reqs, meta = [], []
    for s in gts:
        g = parse_gt(s)
        if g == ((None,), ()):
            S.count("excluded_lone_dot")
            continue
        for container in ("vcf", "rawbcf", "bcf", "vcf.gz"):
            cs = make_cs(g, "selected")
            reqs.append(E.l2_request(E.encode(cs, container, None, layout="single"), None, mode="genos"))
            meta.append((s, g, container))
    for (s, g, container), r in zip(meta, harness.run_all(reqs)):
        S.count("L2_classifications")
        wit = {"gt": s, "container": container, "level": "L2"}
        exp = expected_code(g)
        if "panic" in r or r.get("died") or r.get("thread_panic"):
            S.viol("C08:panic:%s:%s" % ("bcf" if "bcf" in container else "vcf", panic_sig(str(r.get("panic") or r.get("thread_panic") or r))),
                   "[L2 %s GT %s] reader panicked: %s" % (container, s, str(r)[:300]), wit)
        elif "err" in r or not r.get("records"):
            S.viol("C08:read-error:%s" % container, "[L2 %s GT %s] valid record not read: %s" % (container, s, str(r)[:300]), wit)
        else:
            codes = r["records"][0][2]
            got, oth = int(codes[0]), int(codes[1])
            if got != exp or oth != 1:
                S.viol("C08:class:%s" % container, "[L2 %s GT %s] classified as code %d (other sample %d), expected %d "
                       "(0/1/2 = ALT count, 3 missing, 4 multiallelic, 5 not diploid)" % (container, s, got, oth, exp), wit)
            if r["records"][0][0] != "ctg7" or r["records"][0][1] != 4242:
                S.viol("C08:position:%s" % container, "[L2 %s GT %s] reader reports site %r:%r" % (container, s, r["records"][0][0], r["records"][0][1]), wit)
        S.case(key="L2|%s|%s" % (s, container), nontrivial=s != "0/0")
    # ---------------- C: the binary
    for s in gts:
        g = parse_gt(s)
        if g == ((None,), ()):
            continue
        c = classify(g)
        for container in cont_c:
            for role in ("selected", "unselected"):
                cs = make_cs(g, role)
                data = E.encode(cs, container, None, layout="single")
                r = E.cli_create(data, [("sel", None)], extra=["-vv"], via="stdin" if len(s) % 2 else "path")
                S.count("C_runs")
                from .. import replay as R
                if role == "unselected":
                    rp = R.exact(r, b"#SHAPE=<3>\n0 1 0\n")
                elif c[0] == "geno":
                    rp = R.exact(r, ("#SHAPE=<3>\n%s\n" % " ".join("1" if j == c[1] else "0" for j in range(3))).encode())
                elif c[0] == "ploidy":
                    rp = R.reject(r, "ctg7:4242")
                else:
                    rp = R.exact(r, b"#SHAPE=<3>\n0 0 0\n")
                wit = {"gt": s, "container": container, "role": role, "level": "C", "argv": r.argv, "input_b64": E.b64(data), "run": r.brief(), "replay": rp}
                tag = "C %s GT %s %s" % (container, s, role)
                sk_sites, summary, sk_samples = E.parse_stderr(r.err)
                if r.panicked or r.signal:
                    S.viol("C08:panic:%s:%s" % ("bcf" if "bcf" in container else "vcf", panic_sig(r.err) if r.err.strip() else "signal"),
                           "[%s] panicked/killed: rc %s %r" % (tag, r.rc, r.err[:300]), wit)
                elif role == "unselected":
                    if r.rc != 0 or r.out != b"#SHAPE=<3>\n0 1 0\n":
                        S.viol("C08:unselected:%s" % container, "[%s] an unselected sample's genotype influenced the run: rc %s stdout %r stderr %r" % (tag, r.rc, r.out[:80], r.err[:200]), wit)
                elif c[0] == "geno":
                    exp = [0, 0, 0]
                    exp[c[1]] = 1
                    if r.rc != 0 or r.out != ("#SHAPE=<3>\n%d %d %d\n" % tuple(exp)).encode() or sk_sites or sk_samples:
                        S.viol("C08:count:%s" % container, "[%s] expected ALT count %d: rc %s stdout %r skip-log %r" % (tag, c[1], r.rc, r.out[:80], sk_samples), wit)
                elif c[0] in ("missing", "multi"):
                    reason = {"missing": "missing", "multi": "multiallelic"}[c[0]]
                    ambiguous = any(a is None for a in g[0]) and any(a is not None and a >= 2 for a in g[0])
                    okreason = [x for x in sk_samples if x[0] == "sel" and x[1] == "ctg7:4242" and (ambiguous or x[2] == reason)]
                    if r.rc != 0 or r.out != b"#SHAPE=<3>\n0 0 0\n" or len(sk_samples) != 1 or not okreason or sk_sites != ["ctg7:4242"] or summary != (1, 1):
                        S.viol("C08:skip:%s" % container, "[%s] expected the site to be skipped as %s exactly once: rc %s stdout %r sites %r samples %r summary %r" % (
                            tag, reason, r.rc, r.out[:80], sk_sites, sk_samples, summary), wit)
                else:
                    if r.rc == 0 or r.out or b"ctg7:4242" not in r.err:
                        S.viol("C08:ploidy:%s" % container, "[%s] a non-diploid genotype in a selected sample must fail naming ctg7:4242 and yield no spectrum: rc %s stdout %r stderr %r" % (
                            tag, r.rc, r.out[:80], r.err[:200]), wit)
                S.case(key="C|%s|%s|%s" % (s, container, role), nontrivial=s != "0/0")
                if s == "1|." and role == "selected" and container == "vcf":
                    S.sample({"gt": s, "container": container, "role": role, "argv": r.argv, "rc": r.rc, "stdout": r.out.decode(), "stderr": r.err.decode()[:500]})
                if s == "0/1/1" and role == "selected" and container == "rawbcf":
                    S.sample({"gt": s, "container": container, "role": role, "rc": r.rc, "stdout": r.out.decode(), "stderr": r.err.decode()[:300]})

    # ---------------- C: two selected samples - the other one complete, missing or multiallelic, before or after
    ctx = 0
    for s in gts:
        g = parse_gt(s)
        if g == ((None,), ()):
            continue
        c = classify(g)
        for other in ("0/1", "./.", "1/2"):
            co = classify(parse_gt(other))
            for order in ("first", "second"):
                # every context without projection and (diploid strings: with EVERY; other ploidies: with one rotating) projection target out of all targets of one
                # population of two samples (0..4 chromosomes, odd and even) and of two populations of one sample each
                # (0..2 chromosomes per population): a genotype that is not called lowers the called total of its
                # population only, so whether the site counts depends on the classification
                ctx += 1
                pv = PROJ_VARIANTS[(ctx + S.seed) % len(PROJ_VARIANTS)]
                for proj in ([None] + list(PROJ_VARIANTS) if c[0] != "ploidy" else [None, pv]):
                    cs = make_cs(g, order, other)
                    container = cont_c[(len(s) + len(other)) % len(cont_c)]
                    data = E.encode(cs, container, None, layout="single")
                    smap2 = [("sel", None), ("oth", None)]
                    if proj is not None and len(proj) == 2:
                        smap2 = [("sel", "A"), ("oth", "B")] if order == "first" else [("oth", "B"), ("sel", "A")]
                        proj = proj if order == "first" else proj[::-1]
                    r = E.cli_create(data, smap2, project=proj, project_via="shape" if proj is None or any(m % 2 for m in proj) or ctx % 2 else "individuals")
                    S.count("C_runs")
                    S.count("C_pair_runs")
                    tag = "C %s GTs %s (%s) with %s%s" % (container, s, order, other, (" projected to shape %r (%s)" % ([m + 1 for m in proj], "one population" if len(proj) == 1 else "sel and oth in two populations")) if proj else "")
                    from .. import replay as R
                    wit = {"gt": s, "container": container, "level": "C", "argv": r.argv, "input_b64": E.b64(data), "run": r.brief()}
                    if c[0] == "ploidy":
                        wit["replay"] = R.reject(r, "ctg7:4242")
                    elif proj is None:
                        e5 = [0] * 5
                        if c[0] == "geno" and co[0] == "geno":
                            e5[c[1] + co[1]] = 1
                        wit["replay"] = R.exact(r, ("#SHAPE=<5>\n%s\n" % " ".join(map(str, e5))).encode())
                    if r.panicked or r.signal:
                        S.viol("C08:panic:%s:%s" % ("bcf" if "bcf" in container else "vcf", panic_sig(r.err) if r.err.strip() else "signal"),
                               "[%s] panicked/killed: rc %s %r" % (tag, r.rc, r.err[:300]), wit)
                    elif c[0] == "ploidy":
                        if r.rc == 0 or r.out or b"ctg7:4242" not in r.err:
                            S.viol("C08:ploidy-pair:%s" % container, "[%s] a non-diploid genotype in a selected sample must fail naming ctg7:4242 and yield no spectrum: rc %s stdout %r stderr %r" % (
                                tag, r.rc, r.out[:80], r.err[:200]), wit)
                    else:
                        both = c[0] == "geno" and co[0] == "geno"
                        if proj is None:
                            exp = [0] * 5
                            if both:
                                exp[c[1] + co[1]] = 1
                            want = ("#SHAPE=<5>\n%s\n" % " ".join(map(str, exp))).encode()
                            if r.rc != 0 or r.out != want:
                                S.viol("C08:pair-count:%s" % container, "[%s] rc %s stdout %r expected %r" % (tag, r.rc, r.out[:80], want), wit)
                        else:
                            # projected to 2 chromosomes: only complete genotypes are called chromosomes (a multiallelic or missing
                            # genotype lowers the called total, it is never hom-ref)
                            from ..oracle.callset import reference_create
                            exp = reference_create(cs, smap2, proj)
                            ps = E.parse_text_spectrum(r.out) if r.rc == 0 else None
                            from fractions import Fraction
                            S.count("C_pair_projected_runs")
                            S.observe("projection_context", "%r%s" % ([m + 1 for m in proj], " counted" if exp.counted else " skipped"))
                            if ps is None or ps[0] != exp.shape or any(abs(Fraction(t) - e) > Fraction(1, 10 ** 6) for t, e in zip(ps[1], exp.cells)):
                                S.viol("C08:pair-projected:%s" % container, "[%s] rc %s stdout %r, expected shape %r cells %r" % (tag, r.rc, r.out[:80], exp.shape, [float(x) for x in exp.cells]), wit)
                    S.case(key="CP|%s|%s|%s|%s" % (s, other, order, proj), nontrivial=True)
