"""C18 - results do not depend on how the byte stream is chunked; I/O errors surface.

L (through the `verif` hook): the genotype reader / Array::read_npy over a planned BufRead whose FIRST
chunk length is enumerated over every value 1..len, with the rest all-at-once / random 1-64 / 1 byte;
a read fault at every byte offset; write::Builder::write into short-writing and failing writers.
S (LD_PRELOAD shim under the real binary): the same at the syscall boundary, on stdin and on a path.
"""
import os, subprocess
from .. import harness, cli, build
from ..common import rng_for, h2f, digest, scratch_dir
from ..engines import create as E
from ..gen import callsets as G, spectra as GS, vcfgen
from ..oracle import spectrum as O

LEVEL = "fault_enumeration"
NEEDS = ["harness", "cli", "shim"]
RULE = ("files per format (vcf, vcf.gz, bgzf bcf, raw bcf; 0.4-3 KB; npy and text spectra): quick 1 / thorough 6 per shard-format; for EACH file the first "
        "chunk length takes every value 1..len (exhaustive) x rest {all at once, random 1-64, 1 byte}, and each first-chunk length once more with the reader builder's options given explicitly (compression given + format detected / compression detected + format given / both given); a read fault (kinds Other, BrokenPipe, "
        "ConnectionReset; the reader then keeps failing / reports end of input / carries on) at every offset 0..len-1 (L) / a strided subset (S); writers accepting 1-7 bytes per call and failing at every offset; `-o FILE` over a path that is absent / holds a longer earlier result / longer garbage leaves exactly the bytes a pipe receives. "
        "Baseline = the all-at-once result. Two INVALID call sets per vcf / vcf.gz shard (an empty line between records) under every first-chunk length: the same verdict as when delivered at once. A fault only obliges failure when the adapter recorded that it was DELIVERED. "
        "Non-trivial: any schedule with first chunk < len, any delivered fault; distinct = (file digest, schedule/fault).")
ASSUMPTIONS = ["UnexpectedEof / Interrupted are not injected: std and noodles legitimately treat them as end-of-stream / retry",
               "the shim's logged read sizes are what the program saw (checked against strace once in the self-test)"]
EXHAUSTIVE = {"quick": True, "thorough": True}
FLOORS = {"quick": {"evaluations": 20000, "distinct_nontrivial": 15000, "counts": {"L_chunk_schedules": 8000, "L_read_faults": 5000, "L_write_plans": 800, "S_runs": 400}},
          "thorough": {"evaluations": 300000, "distinct_nontrivial": 200000, "counts": {"L_chunk_schedules": 100000, "L_read_faults": 80000, "L_write_plans": 10000, "S_runs": 8000}}}
NSHARD = 32
FORMATS = ["vcf", "vcf.gz", "bcf", "rawbcf"]
KINDS = ["Other", "BrokenPipe", "ConnectionReset", "UnexpectedEof", "TimedOut"]
MODES = ["sticky", "once-eof", "once-continue"]


def plan(tier, seed):
    q = tier == "quick"
    plans = []
    for i in range(NSHARD):
        plans.append({"name": "s%d" % i, "i": i, "fmt": FORMATS[i % 4], "files": 1 if q else 3, "s_stride": 9 if q else 2, "write_cases": 4 if q else 40})
    return plans


def small_callset(rng):
    cs = G.random_callset(rng, nsamples=rng.choice([1, 2, 3, 4]), nrecords=rng.choice([2, 4, 7]), p_missing=rng.choice([0, 0.2]), p_multi=0,
                          extras=rng.random() < 0.3)
    return cs


def baseline_key(r):
    """What must be identical across schedules: the spectrum bits (or the fact and site of an error)."""
    if "scs" in r:
        return ("ok", tuple(r["scs"]["shape"]), tuple(r["scs"]["data"]), r.get("sites"), tuple(r.get("skipped", [])))
    return ("err",)


def check_L_create(S, p):
    seed = S.seed
    for fi in range(p["files"]):
        rng = rng_for(seed, "c18", p["name"], "file", fi)
        cs = small_callset(rng)
        fmt = p["fmt"]
        data = E.encode(cs, fmt, rng, layout=rng.choice(["single", "unit", "midrecord"]) if fmt in ("vcf.gz", "bcf") else None)
        smap = G.random_sample_map(rng, cs.samples) if rng.random() < 0.5 else None
        n = len(data)
        fd = digest(data)
        threads = rng.choice([1, 1, 2, 4]) if fmt in ("vcf.gz", "bcf") else 1
        reqs = [E.l2_request(data, smap, threads=threads)]
        meta = [("base", None)]
        for first in range(1, n + 1):
            for rest_kind in ("all", "rand", "one"):
                if rest_kind == "all":
                    reqs.append(E.l2_request(data, smap, threads=threads, chunks=[first]))
                elif rest_kind == "one":
                    reqs.append(E.l2_request(data, smap, threads=threads, chunks=[first], rest=1))
                else:
                    reqs.append(E.l2_request(data, smap, threads=threads, chunks=[first] + [rng.randint(1, 64) for _ in range(40)], rest=rng.randint(1, 64)))
                meta.append(("chunk", (first, rest_kind)))
            # the builder's explicit options (what the input really is): compression given + format detected, compression detected +
            # format given, both given - the default builder auto-detects both
            true_comp = "bgzf" if fmt in ("vcf.gz", "bcf") else "none"
            true_fmt = "bcf" if "bcf" in fmt else "vcf"
            comp_o, fmt_o = [(true_comp, None), (None, true_fmt), (true_comp, true_fmt)][first % 3]
            if first % 2:
                reqs.append(E.l2_request(data, smap, threads=threads, chunks=[first], compression=comp_o, format=fmt_o))
            else:
                reqs.append(E.l2_request(data, smap, threads=threads, chunks=[first], rest=rng.choice([1, 2, 3, 7]), compression=comp_o, format=fmt_o))
            meta.append(("chunk", (first, "options compression=%s format=%s" % (comp_o or "auto", fmt_o or "auto"))))
        for off in range(n):
            kind = KINDS[off % len(KINDS)]
            for mode in MODES:
                reqs.append(E.l2_request(data, smap, threads=threads, fail_at=off, fail_kind=kind, fail_mode=mode, chunks=[rng.randint(1, 97) for _ in range(8)], rest=rng.choice([1, 13, 4096])))
                meta.append(("fault", (off, kind, mode)))
        res = harness.run_all(reqs, timeout=1200)
        base = res[0]
        wit0 = {"level": "L", "format": fmt, "data_hex": data.hex(), "map": E.map_json(smap), "threads": threads}
        if "scs" not in base:
            S.viol("C18:baseline", "[L %s] valid input failed all-at-once: %s" % (fmt, str(base)[:300]), wit0)
            continue
        bkey = baseline_key(base)
        S.observe("file_lengths", n)
        for (what, arg), r in zip(meta[1:], res[1:]):
            if what == "chunk":
                S.count("L_chunk_schedules")
                S.count("L_chunk_%s" % fmt)
                first, rest_kind = arg
                if rest_kind == "all":
                    S.observe("first_chunk_lengths_%s" % fmt, first)
                if rest_kind.startswith("options"):
                    S.count("L_chunk_explicit_builder_options")
                    S.observe("builder_options", "%s %s" % (fmt, rest_kind[8:]))
                seen_first = (r.get("io", {}).get("first_chunks") or [None])[0]
                if "panic" in r or r.get("died") or r.get("thread_panic"):
                    S.viol("C18:panic", "[L %s first chunk %d rest %s] panicked: %s" % (fmt, first, rest_kind, str(r)[:300]), dict(wit0, first=first, rest=rest_kind))
                elif baseline_key(r) != bkey:
                    S.viol("C18:chunk:%s" % fmt, "[L %s, %d bytes, first chunk %d, rest %s] result differs from the all-at-once baseline: %s" % (
                        fmt, n, first, rest_kind, str({k: v for k, v in r.items() if k != "scs"})[:300]), dict(wit0, first=first, rest=rest_kind))
                elif seen_first is not None and seen_first != min(first, n):
                    S.inconc("adapter delivered first chunk %r instead of %d" % (seen_first, first))
                S.case(key="%s|c|%d|%s" % (fd, first, rest_kind), nontrivial=first < n)
            else:
                S.count("L_read_faults")
                off, kind, mode = arg
                delivered = r.get("io", {}).get("fault_delivered")
                if "panic" in r or r.get("died") or r.get("thread_panic"):
                    S.viol("C18:panic", "[L %s fault %s at %d] panicked: %s" % (fmt, kind, off, str(r)[:300]), dict(wit0, fail_at=off, kind=kind))
                elif delivered:
                    S.count("L_read_faults_delivered")
                    S.count("L_read_faults_%s" % mode)
                    S.observe("fault_offsets_delivered_%s" % fmt, off)
                    # a transient error after which the stream continues may be retried: then the COMPLETE result is fine too
                    if "scs" in r and not (mode == "once-continue" and baseline_key(r) == bkey):
                        S.viol("C18:read-fault:%s" % fmt, "[L %s, %d bytes] reader failed with %s at offset %d (delivered, mode %s) but create returned Ok with %d sites%s" % (
                            fmt, n, kind, off, mode, r.get("sites", -1), " (partial data)" if baseline_key(r) != bkey else ""), dict(wit0, fail_at=off, kind=kind, mode=mode))
                elif baseline_key(r) != bkey:
                    S.viol("C18:fault-undelivered-differs", "[L %s fault at %d not delivered] result differs from baseline" % (fmt, off), dict(wit0, fail_at=off, kind=kind))
                S.case(key="%s|f|%d|%s" % (fd, off, mode), nontrivial=bool(delivered))
        if fi == 0 and p["i"] < 4:
            S.sample({"level": "L", "format": fmt, "bytes": n, "threads": threads, "schedules": "first chunk 1..%d x {all, rand, one}" % n,
                      "baseline_sites": base.get("sites"), "example_io_record": res[1].get("io")})


def check_L_malformed(S, p):
    """A call set that is NOT valid (an empty line between two records; a record cut short) under every chunk schedule: whatever the
    verdict on the whole stream is - an error - it is the verdict under every way of delivering the bytes, never 'success with the
    records before the flaw' for some of them."""
    if p["fmt"] not in ("vcf", "vcf.gz"):
        return
    rng = rng_for(S.seed, "c18", p["name"], "malformed")
    cs = small_callset(rng)
    lines = cs.to_vcf().split(b"\n")[:-1]
    nh = len([l for l in lines if l.startswith(b"#")])
    k = nh + rng.randint(1, max(1, len(lines) - nh - 1))
    variants = {"empty line between records": b"\n".join(lines[:k]) + b"\n\n" + b"\n".join(lines[k:]) + b"\n",
                "two empty lines before the last record": b"\n".join(lines[:-1]) + b"\n\n\n" + lines[-1] + b"\n"}
    for vname, text in variants.items():
        flaw = text.index(b"\n\n") + 2
        if p["fmt"] == "vcf":
            data = text
        else:
            data = vcfgen.bgzf(text, [flaw] if rng.random() < 0.7 else [flaw - 1, flaw + 3])       # a block ends right behind the empty line
        n = len(data)
        # the same text in other packagings: plain, one BGZF block, a block ending right behind / inside / before the flaw
        others = [("plain text", text), ("one BGZF block", vcfgen.bgzf(text)), ("BGZF block ending right behind the flaw", vcfgen.bgzf(text, [flaw])),
                  ("BGZF block ending inside the flaw", vcfgen.bgzf(text, [flaw - 1])), ("BGZF blocks per line", vcfgen.bgzf(text, vcfgen.record_cuts_vcf(text)))]
        ores = harness.run_all([E.l2_request(d_, None) for _, d_ in others])
        okeys = {nm: baseline_key(r_) for (nm, _), r_ in zip(others, ores)}
        S.count("L_malformed_packagings", len(others))
        if len(set(okeys.values())) > 1:
            S.viol("C18:packaging:malformed", "[L call set with %s] the verdict depends on how the same text is packaged: %r" % (
                vname, {nm: ("accepted" if k_[0] == "ok" else "error") for nm, k_ in okeys.items()}), {"level": "L", "text": text.decode("latin1")[:4000], "flaw": vname})
        reqs = [E.l2_request(data, None)]
        for first in range(1, n + 1):
            reqs.append(E.l2_request(data, None, chunks=[first]))
            reqs.append(E.l2_request(data, None, chunks=[first], rest=rng.choice([1, 2, 5, 64])))
        res = harness.run_all(reqs, timeout=1200)
        bkey = baseline_key(res[0])
        S.count("L_malformed_files")
        wit0 = {"level": "L", "format": p["fmt"], "data_hex": data.hex(), "flaw": vname}
        for j, r in enumerate(res[1:]):
            S.count("L_chunk_schedules")
            S.count("L_malformed_schedules")
            first = 1 + j // 2
            if "panic" in r or r.get("died"):
                S.viol("C18:panic", "[L %s with %s, first chunk %d] panicked: %s" % (p["fmt"], vname, first, str(r)[:300]), dict(wit0, first=first))
            elif baseline_key(r) != bkey:
                S.viol("C18:chunk:malformed:%s" % p["fmt"], "[L %s with %s (flaw at byte %d of %d), first chunk %d%s] %s, but delivered at once: %s" % (
                    p["fmt"], vname, flaw, n, first, "" if j % 2 == 0 else ", short later chunks",
                    ("accepted with %s sites" % r.get("sites")) if "scs" in r else "error %r" % r.get("err"), "accepted" if bkey[0] == "ok" else "error"), dict(wit0, first=first))
            S.case(key="%s|m|%d|%d" % (digest(data), first, j % 2), nontrivial=True)


def check_L_big(S, p):
    """Inputs larger than the 64 KiB read-ahead: chunk boundaries straddling 65536 and odd constant chunk sizes."""
    seed = S.seed
    rng = rng_for(seed, "c18", p["name"], "big")
    fmt = p["fmt"]
    ns = rng.choice([30, 60])
    cs = G.random_callset(rng, nsamples=ns, nrecords=rng.choice([700, 1100]), p_missing=0.02, p_multi=0, extras=False)
    data = E.encode(cs, fmt, rng, layout="random" if fmt in ("vcf.gz", "bcf") else None)
    n = len(data)
    if n <= 70000:
        # compressed containers may need more records to exceed the read-ahead
        cs = G.random_callset(rng, nsamples=ns, nrecords=6000, p_missing=0.02, p_multi=0, extras=False)
        data = E.encode(cs, fmt, rng, layout="random" if fmt in ("vcf.gz", "bcf") else None)
        n = len(data)
    S.observe("big_file_lengths", n)
    plans = [([], None)]
    for k in (7, 1000, 4097, 65535, 65536, 65537, 100000, rng.randint(2, 9000)):
        plans.append(([], k))
    for first in (65533, 65534, 65535, 65536, 65537, 65539, 1, 2, 17, n - 1):
        plans.append(([first], rng.choice([None, 5000, 13])))
    plans.append(([rng.randint(1, 20000) for _ in range(40)], rng.randint(1, 70000)))
    reqs = []
    for chunks, rest in plans:
        reqs.append(E.l2_request(data, None, threads=rng.choice([1, 4]), chunks=chunks or None, rest=rest))
    res = harness.run_all(reqs, timeout=1200)
    base = res[0]
    if "scs" not in base:
        S.viol("C18:baseline", "[L big %s] valid input failed: %s" % (fmt, str(base)[:200]), {"level": "L", "big": True, "format": fmt})
        return
    bkey = baseline_key(base)
    for (chunks, rest), r in zip(plans[1:], res[1:]):
        S.count("L_chunk_schedules")
        S.count("L_big_file_schedules")
        if baseline_key(r) != bkey:
            S.viol("C18:chunk:big:%s" % fmt, "[L %s, %d bytes (> 64 KiB), first chunks %r then %r] result differs from the all-at-once baseline: %s" % (
                fmt, n, chunks[:3], rest, str({k: v for k, v in r.items() if k != "scs"})[:300]),
                {"level": "L", "format": fmt, "labels": [p["name"], "big"], "chunks": chunks, "rest": rest})
        S.case(key="%s|big|%r|%r" % (digest(data), chunks[:3], rest), nontrivial=True)


def check_L_npy(S, p):
    seed = S.seed
    rng = rng_for(seed, "c18", p["name"], "npy")
    shape = GS.random_shape(rng, 1, 3, 5)
    vals = GS.values(rng, O.prod(shape), rng.choice(["int", "real", "special"]))
    descr = rng.choice(["<f8", ">f8", "<i4", "<f4", ">u2"]) if all(v == v and abs(v) < 1e4 for v in vals) else "<f8"
    if descr[1] in "iu":
        vals = [float(int(abs(v)) % 200) for v in vals]
    data = GS.npy_bytes(shape, vals, descr, version=rng.choice([(1, 0), (2, 0), (3, 0)]))
    n = len(data)
    fd = digest(data)
    reqs = [{"op": "read_npy", "data": data.hex()}]
    meta = [("base", None)]
    for first in range(1, n + 1):
        for rest in (None, 1, 7):
            r = {"op": "read_npy", "data": data.hex(), "chunks": [first]}
            if rest:
                r["rest"] = rest
            reqs.append(r)
            meta.append(("chunk", (first, rest)))
    for off in range(n):
        reqs.append({"op": "read_npy", "data": data.hex(), "fail_at": off, "fail_kind": KINDS[off % len(KINDS)], "fail_mode": MODES[:2][off % 2], "rest": [1, 5, 64, 100000][off % 4]})
        meta.append(("fault", off))
    # a reader that FAILS exactly where the data ends (a decompressor that finds its trailer missing, a socket reset at the last byte):
    # the failure is a failure whatever its kind - also the kind that an ordinary end of input would have (UnexpectedEof)
    for kind_ in ("UnexpectedEof", "Other", "ConnectionReset", "TimedOut"):
        for off in (n, n - 1, n - 4):
            reqs.append({"op": "read_npy", "data": data.hex(), "fail_at": off, "fail_kind": kind_, "fail_mode": "sticky", "rest": [3, 8, 100000][(off + len(kind_)) % 3]})
            meta.append(("fault", off))
    res = harness.run_all(reqs)
    base = res[0]
    wit0 = {"level": "L", "format": "npy", "data_hex": data.hex()}
    if "data" not in base:
        S.viol("C18:baseline", "[L npy] valid file rejected: %s" % str(base)[:200], wit0)
        return
    for (what, arg), r in zip(meta[1:], res[1:]):
        if what == "chunk":
            S.count("L_chunk_schedules")
            S.count("L_chunk_npy")
            S.observe("first_chunk_lengths_npy", arg[0])
            if r.get("data") != base["data"] or r.get("shape") != base["shape"]:
                S.viol("C18:chunk:npy", "[L npy %d bytes first chunk %d rest %r] differs from baseline: %s" % (n, arg[0], arg[1], str(r)[:200]), dict(wit0, first=arg[0], rest=arg[1]))
            S.case(key="%s|c|%d|%s" % (fd, arg[0], arg[1]), nontrivial=arg[0] < n)
        else:
            S.count("L_read_faults")
            if r.get("io", {}).get("fault_delivered"):
                S.count("L_read_faults_delivered")
                S.observe("fault_offsets_delivered_npy", arg)
                if "data" in r:
                    S.viol("C18:read-fault:npy", "[L npy] reader failed at offset %d (delivered) but read_npy returned Ok" % arg, dict(wit0, fail_at=arg))
            S.case(key="%s|f|%d" % (fd, arg), nontrivial=bool(r.get("io", {}).get("fault_delivered")))


def check_L_write(S, p):
    seed = S.seed
    for wi in range(p["write_cases"]):
        rng = rng_for(seed, "c18", p["name"], "w", wi)
        shape = GS.random_shape(rng, 1, 3, 4)
        vals = GS.values(rng, O.prod(shape), rng.choice(["int", "real", "special"]))
        fmt = rng.choice(["text", "npy"])
        prec = rng.choice([0, 3, 6, 12])
        base_req = {"op": "spec", "do": "write", "shape": shape, "data": GS.hexes(vals), "fmt": fmt, "precision": prec}
        base = harness.run_all([dict(base_req)])[0]
        wit0 = {"level": "L", "write": base_req}
        if not base.get("ok"):
            S.viol("C18:baseline", "[L write %s] failed on a plain writer: %s" % (fmt, str(base)[:200]), wit0)
            continue
        n = len(base["bytes"]) // 2
        reqs, meta = [], []
        for per in ([1], [2], [3], [7], [1, 5, 2], [rng.randint(1, 7) for _ in range(5)]):
            reqs.append(dict(base_req, per_call=per))
            meta.append(("short", per))
        for off in range(n):
            reqs.append(dict(base_req, fail_at=off, fail_kind=KINDS[off % 3], per_call=[rng.randint(1, 9)] if off % 2 else None))
            meta.append(("fault", off))
        for (what, arg), r in zip(meta, harness.run_all(reqs)):
            S.count("L_write_plans")
            if what == "short":
                S.observe("short_write_patterns", str(arg))
                if not r.get("ok") or r.get("bytes") != base["bytes"]:
                    S.viol("C18:short-write", "[L write %s shape %r] writer accepting %r bytes per call: ok=%r, bytes differ=%r" % (
                        fmt, shape, arg, r.get("ok"), r.get("bytes") != base["bytes"]), dict(wit0, per_call=arg))
            else:
                if r.get("fault_delivered"):
                    S.count("L_write_faults_delivered")
                    S.observe("write_fault_offsets_%s" % fmt, arg)
                    if r.get("ok"):
                        S.viol("C18:write-fault:L", "[L write %s shape %r] writer failed at offset %d of %d (delivered) but write returned Ok" % (fmt, shape, arg, n), dict(wit0, fail_at=arg))
                    elif base["bytes"][:2 * arg] != r.get("bytes"):
                        S.viol("C18:write-prefix", "[L write %s] bytes accepted before the fault are not a prefix of the full output" % fmt, dict(wit0, fail_at=arg))
                elif not r.get("ok"):
                    S.viol("C18:write-spurious", "[L write %s] failed without a delivered fault" % fmt, dict(wit0, fail_at=arg))
            S.case(key=digest([base_req, what, arg]), nontrivial=True)


# ------------------------------------------------------------------ S: the real binary under the shim

def shim_run(args, stdin_bytes=None, path=None, env_extra=None, kind="release"):
    """Run sfs under LD_PRELOAD=failio.so; returns (Run, log lines)."""
    log = os.path.join(scratch_dir(), "shim-%d.log" % os.getpid())
    try:
        os.unlink(log)
    except OSError:
        pass
    env = {"LD_PRELOAD": build.shim(), "FAILIO_LOG": log}
    env.update(env_extra or {})
    r = cli.sfs(args + ([path] if path else []), stdin=stdin_bytes, env=env, kind=kind, timeout=60)
    try:
        lines = open(log).read().splitlines()
    except OSError:
        lines = []
    return r, lines


def check_S(S, p):
    seed = S.seed
    rng = rng_for(seed, "c18", p["name"], "S")
    fmt = p["fmt"]
    cs = small_callset(rng)
    data = E.encode(cs, fmt, rng, layout="unit" if fmt in ("vcf.gz", "bcf") else None)
    n = len(data)
    base = cli.sfs(["create"], stdin=data)
    if base.rc != 0:
        S.viol("C18:baseline", "[S %s] baseline create failed: %r" % (fmt, base.err[:200]), {"level": "S", "input_b64": E.b64(data)})
        return
    stride = p["s_stride"]
    # chunked stdin / chunked file reads: first chunk enumerated with a stride (the L level is exhaustive), rest 1 / 17 / all
    for first in list(range(1, min(n, 40))) + list(range(40, n + 1, stride)):
        for via in ("stdin", "path"):
            rest = [0, 1, 17][first % 3]
            env = {"FAILIO_READ_CHUNKS": str(first), "FAILIO_READ_REST": str(rest)}
            if via == "stdin":
                env["FAILIO_READ_FD"] = "0"
                r, log = shim_run(["create"], stdin_bytes=data, env_extra=env)
            else:
                path = E.tmpfile(data, ".in")
                env["FAILIO_READ_PATH"] = os.path.basename(path)
                r, log = shim_run(["create"], path=path, env_extra=env)
            S.count("S_runs")
            S.count("S_chunked_%s" % via)
            reads = [l for l in log if l.startswith("r ")]
            if not reads:
                S.inconc("shim saw no read on the controlled descriptor (%s %s)" % (fmt, via))
                continue
            got_first = int(reads[0].split()[2])
            S.observe("S_first_read_lengths_%s" % fmt, got_first)
            if r.rc != base.rc or r.out != base.out:
                S.viol("C18:chunk:S:%s" % fmt, "[S create %s via %s, first read() returned %d bytes, later %s] rc %s stdout %r stderr %r (baseline %r)" % (
                    fmt, via, got_first, rest or "all", r.rc, r.out[:100], r.err[:200], base.out[:100]),
                    {"level": "S", "input_b64": E.b64(data), "env": env, "via": via, "replay": __import__("vf.replay", fromlist=["x"]).same(base, r)})
            S.case(key="%s|S|%d|%s" % (digest(data), first, via), nontrivial=first < n)
    # read faults at a strided set of offsets
    for off in range(0, n, max(1, stride // 2)):
        via = "stdin" if off % 2 else "path"
        env = {"FAILIO_READ_FAIL_AT": str(off), "FAILIO_READ_ERRNO": str([5, 104, 32][off % 3]), "FAILIO_READ_REST": str([0, 64, 7][off % 3])}
        if via == "stdin":
            env["FAILIO_READ_FD"] = "0"
            r, log = shim_run(["create"], stdin_bytes=data, env_extra=env)
        else:
            path = E.tmpfile(data, ".in")
            env["FAILIO_READ_PATH"] = os.path.basename(path)
            r, log = shim_run(["create"], path=path, env_extra=env)
        S.count("S_runs")
        delivered = any(l.startswith("fault r") for l in log)
        if delivered:
            S.count("S_read_faults_delivered")
            S.observe("S_fault_offsets_%s" % fmt, off)
            if r.rc == 0 or r.out:
                S.viol("C18:read-fault:S:%s" % fmt, "[S create %s via %s] read() failed with errno %s at offset %d but the run exited %s with stdout %r" % (
                    fmt, via, env["FAILIO_READ_ERRNO"], off, r.rc, r.out[:100]), {"level": "S", "input_b64": E.b64(data), "env": env, "via": via,
                                                                                     "replay": __import__("vf.replay", fromlist=["x"]).exit_status(r, True)})
        elif r.rc != base.rc or r.out != base.out:
            S.viol("C18:fault-undelivered-differs", "[S create %s] no fault delivered but output differs" % fmt, {"level": "S", "input_b64": E.b64(data), "env": env})
        S.case(key="%s|Sf|%d" % (digest(data), off), nontrivial=delivered)
    # spectrum subcommands: chunked reads + failing/short stdout writes
    shape = GS.random_shape(rng, 1, 3, 5)
    vals = GS.values(rng, O.prod(shape), "int")
    spec_in = GS.text_spectrum(shape, vals, 2) if p["i"] % 2 else GS.npy_bytes(shape, vals)
    for sub in (["view"], ["fold"], ["stat", "-s", "sum"], ["view", "-O", "npy"]):
        b = cli.sfs(sub, stdin=spec_in)
        nout = len(b.out)
        for first in range(1, len(spec_in) + 1, max(1, stride // 3)):
            r, log = shim_run(sub, stdin_bytes=spec_in, env_extra={"FAILIO_READ_FD": "0", "FAILIO_READ_CHUNKS": str(first), "FAILIO_READ_REST": str([0, 1, 5][first % 3])})
            S.count("S_runs")
            S.count("S_spectrum_chunked")
            if r.rc != b.rc or r.out != b.out:
                S.viol("C18:chunk:S:spectrum", "[S %r stdin first read %d] rc %s stdout %r (baseline %r)" % (sub, first, r.rc, r.out[:80], b.out[:80]),
                       {"level": "S", "argv": sub, "input_b64": E.b64(spec_in), "first": first})
            S.case(key="%s|Ss|%s|%d" % (digest(spec_in), sub, first), nontrivial=True)
        # a failing read() at every (strided) offset of the spectrum input, incl. inside and right after the last value
        nin = len(spec_in)
        offs = sorted(set(list(range(0, nin, max(1, stride // 3))) + list(range(max(0, nin - 12), nin))))
        for off in offs:
            for via in (("stdin",) if off % 2 else ("path",)):
                env = {"FAILIO_READ_FAIL_AT": str(off), "FAILIO_READ_ERRNO": str([5, 104, 116][off % 3]), "FAILIO_READ_REST": str([0, 3][off % 2])}
                if via == "stdin":
                    env["FAILIO_READ_FD"] = "0"
                    r, log = shim_run(sub, stdin_bytes=spec_in, env_extra=env)
                else:
                    pth = E.tmpfile(spec_in, ".spec")
                    env["FAILIO_READ_PATH"] = os.path.basename(pth)
                    r, log = shim_run(sub, path=pth, env_extra=env)
                S.count("S_runs")
                delivered = any(l.startswith("fault r") for l in log)
                if delivered:
                    S.count("S_read_faults_delivered")
                    S.count("S_spectrum_read_faults")
                    S.observe("S_spectrum_fault_offsets", off)
                    if r.rc == 0 or r.out:
                        S.viol("C18:read-fault:S:spectrum", "[S %r via %s, %d-byte %s input] read() failed with errno %s at offset %d but the run exited %s with stdout %r" % (
                            sub, via, nin, "text" if spec_in[:1] == b"#" else "npy", env["FAILIO_READ_ERRNO"], off, r.rc, r.out[:80]),
                            {"level": "S", "argv": sub, "input_b64": E.b64(spec_in), "env": env, "replay": __import__("vf.replay", fromlist=["x"]).exit_status(r, True)})
                S.case(key="%s|Srf|%s|%d" % (digest(spec_in), sub, off), nontrivial=delivered)
        for wmax in (1, 3, 7):
            r, log = shim_run(sub, stdin_bytes=spec_in, env_extra={"FAILIO_WRITE_FD": "1", "FAILIO_WRITE_MAX": str(wmax)})
            S.count("S_runs")
            S.count("S_short_writes")
            if r.rc != b.rc or r.out != b.out:
                S.viol("C18:short-write:S", "[S %r stdout accepting %d bytes per write()] rc %s output differs" % (sub, wmax, r.rc), {"level": "S", "argv": sub, "input_b64": E.b64(spec_in)})
        for wk, off in enumerate(range(0, nout, max(1, stride // 3))):
            werr = [28, 5, 32, 32][wk % 4]          # ENOSPC, EIO, EPIPE (a closed pipe reader)
            r, log = shim_run(sub, stdin_bytes=spec_in, env_extra={"FAILIO_WRITE_FD": "1", "FAILIO_WRITE_FAIL_AT": str(off), "FAILIO_WRITE_ERRNO": str(werr),
                                                                  "FAILIO_WRITE_MAX": str([0, 3][wk % 2])})
            S.observe("S_write_errnos", werr)
            S.count("S_runs")
            delivered = any(l.startswith("fault w") for l in log)
            if delivered:
                S.count("S_write_faults_delivered")
                S.observe("S_write_fault_offsets", off)
                if r.rc == 0:
                    S.viol("C18:write-fault:S:%s" % sub[0], "[S %r] write() to stdout failed with errno %s at offset %d of %d but the run exited 0" % (
                        sub, werr, off, nout), {"level": "S", "argv": sub, "input_b64": E.b64(spec_in), "fail_at": off,
                                                                "replay": __import__("vf.replay", fromlist=["x"]).exit_status(r, True)})
            S.case(key="%s|Sw|%s|%d" % (digest(spec_in), sub, off), nontrivial=delivered)


def check_S_closed_reader_and_named_pipes(S, p):
    """(1) stdout is a real pipe whose reader goes away (EPIPE): the run must not report success.
    (2) an uncompressed VCF / raw BCF larger than the 64 KiB read-ahead given as a PATH to a named pipe and as /dev/stdin."""
    import subprocess, threading
    seed = S.seed
    rng = rng_for(seed, "c18", p["name"], "pipes")
    # (1) reader closes after a few bytes; output must be large enough to overflow the pipe buffer (64 KiB)
    shape = [rng.choice([9001, 12000])]
    vals = GS.values(rng, shape[0], "real")
    src = GS.npy_bytes(shape, vals)
    for sub in (["view", "-O", "npy"], ["view", "--precision", "12"], ["fold", "-p", "12"]):
        exe = build.cli("release")
        pr = subprocess.Popen([exe] + sub, stdin=subprocess.PIPE, stdout=subprocess.PIPE, stderr=subprocess.PIPE, env=dict(cli.BASE_ENV))
        try:
            pr.stdin.write(src)
            pr.stdin.close()
        except OSError:
            pass
        pr.stdout.read(rng.choice([1, 100, 5000]))
        pr.stdout.close()                       # the reader goes away while the writer still has > 64 KiB to deliver
        err = pr.stderr.read()
        rc = pr.wait(timeout=60)
        S.count("S_runs")
        S.count("S_closed_reader_runs")
        if rc == 0:
            S.viol("C18:write-fault:S:closed-reader", "[S %r] the reader of stdout closed the pipe after a few bytes of a %d-value spectrum but the run exited 0 (stderr %r)" % (
                sub, shape[0], err[:120]), {"level": "S", "argv": sub, "values": shape[0]})
        S.case(key="closed|%s|%s" % (p["name"], sub), nontrivial=True)
    # (2) big uncompressed inputs through non-regular paths
    if p["fmt"] in ("vcf", "rawbcf"):
        cs = G.random_callset(rng, nsamples=rng.choice([20, 30]), nrecords=rng.choice([900, 1400]), p_missing=0.01, p_multi=0, extras=False)
        data = E.encode(cs, p["fmt"], rng)
        base = cli.sfs(["create"], stdin=data)
        fifo = E.tmpfile(b"", ".fifo")
        os.unlink(fifo)
        os.mkfifo(fifo)

        def feed():
            try:
                with open(fifo, "wb") as f:
                    f.write(data)
            except OSError:
                pass
        th = threading.Thread(target=feed, daemon=True)
        th.start()
        r1 = cli.sfs(["create", fifo])
        if th.is_alive():
            try:
                os.close(os.open(fifo, os.O_RDONLY | os.O_NONBLOCK))
            except OSError:
                pass
        th.join(timeout=10)
        r2 = cli.sfs(["create", "/dev/stdin"], stdin=data)
        S.count("S_runs", 2)
        S.count("S_named_pipe_big_inputs", 2)
        S.observe("big_file_lengths", len(data))
        for how, r in (("named pipe", r1), ("/dev/stdin", r2)):
            if r.rc != base.rc or r.out != base.out:
                S.viol("C18:chunk:S:named-pipe:%s" % p["fmt"], "[S create on a %d-byte %s given as a path to a %s] rc %s stdout %r stderr %r; on stdin: rc %s stdout %r" % (
                    len(data), p["fmt"], how, r.rc, r.out[:80], r.err[:160], base.rc, base.out[:80]), {"level": "S", "how": how, "fmt": p["fmt"], "bytes": len(data)})
        S.case(key="bigpipe|%s|%s" % (p["name"], digest(data)), nontrivial=True)


def check_S_output_path(S, p):
    """--output PATH: a failing file write must make the run fail too (real /dev/full, and the shim on a regular file)."""
    seed = S.seed
    rng = rng_for(seed, "c18", p["name"], "Sout")
    for k in range(3):
        shape = GS.random_shape(rng, 1, 3, 6) if k else [rng.randint(1500, 4000)]
        vals = GS.values(rng, O.prod(shape), "int")
        spec_in = GS.text_spectrum(shape, vals, 0)
        for sub in (["view"], ["view", "-O", "npy"], ["fold"]):
            r = cli.sfs(sub + ["-o", "/dev/full"], stdin=spec_in)
            S.count("S_runs")
            S.count("S_output_path_faults")
            if r.rc == 0:
                S.viol("C18:write-fault:S:output-path", "[S %r -o /dev/full, %d values] every write() fails with ENOSPC but the run exited 0" % (sub, len(vals)),
                       {"level": "S", "argv": r.argv, "input_b64": E.b64(spec_in), "replay": __import__("vf.replay", fromlist=["x"]).exit_status(r, True)})
            S.case(key="%s|devfull|%s" % (digest(spec_in), sub), nontrivial=True)
            # ... and a successful write leaves exactly the bytes a pipe receives, whatever the path held before
            from ..engines import outpath
            outpath.check_file_equals_pipe(S, "C18:output-path-bytes", "S %r, %d values" % (sub, len(vals)), rng, sub, spec_in,
                                           state=["longer-earlier-output", "longer-garbage", "absent"][k % 3])
            out = os.path.join(scratch_dir(), "out-%d-%d.sfs" % (os.getpid(), k))
            full = cli.sfs(sub + ["-o", out], stdin=spec_in)
            try:
                n = os.path.getsize(out)
            except OSError:
                n = 0
            for off in sorted({0, 1, n // 2, max(0, n - 1), rng.randrange(max(1, n))}):
                rr, log = shim_run(sub + ["-o", out], stdin_bytes=spec_in, env_extra={"FAILIO_WRITE_PATH": os.path.basename(out), "FAILIO_WRITE_FAIL_AT": str(off), "FAILIO_WRITE_ERRNO": "28"})
                S.count("S_runs")
                delivered = any(l.startswith("fault w") for l in log)
                if delivered:
                    S.count("S_write_faults_delivered")
                    S.count("S_output_path_faults")
                    if rr.rc == 0:
                        S.viol("C18:write-fault:S:output-path", "[S %r -o FILE] write() failed with ENOSPC at offset %d of %d but the run exited 0" % (sub, off, n),
                               {"level": "S", "argv": rr.argv, "input_b64": E.b64(spec_in), "fail_at": off})
                S.case(key="%s|outfault|%s|%d" % (digest(spec_in), sub, off), nontrivial=delivered)


def shard(S, p):
    if "replay" in p:
        S.inconc("witness carries the bytes and the schedule for manual replay")
        return
    check_L_create(S, p)
    check_L_malformed(S, p)
    check_L_big(S, p)
    check_L_npy(S, p)
    check_L_write(S, p)
    check_S(S, p)
    check_S_output_path(S, p)
    check_S_closed_reader_and_named_pipes(S, p)


def post(total, tier, seed):
    """Thorough: 200 sampled chunk schedules / fault offsets under Miri (dependency `unsafe` reached through odd chunkings)."""
    if tier != "thorough" and not os.environ.get("VERIF_SANITIZERS"):
        return {"sanitizers": {"miri": "not run in quick tier"}}
    from .. import sanitize
    rng = rng_for(seed, "c18-miri")
    reqs = []
    for fmt in FORMATS:
        cs = G.random_callset(rng, nsamples=2, nrecords=3, p_missing=0.2, p_multi=0, extras=False)
        data = E.encode(cs, fmt, rng, layout="unit" if fmt in ("vcf.gz", "bcf") else None)
        for _ in range(30):
            reqs.append(E.l2_request(data, None, threads=rng.choice([1, 2]), chunks=[rng.randint(1, len(data))] + [rng.randint(1, 64) for _ in range(6)], rest=rng.choice([1, 7, 64])))
        for _ in range(10):
            reqs.append(E.l2_request(data, None, fail_at=rng.randrange(len(data)), fail_kind=rng.choice(KINDS), rest=rng.choice([1, 16])))
    shape = [2, 3]
    npy = GS.npy_bytes(shape, [1, 2, 3, 4, 5, 6], "<i4")
    for first in range(1, len(npy), 4):
        reqs.append({"op": "read_npy", "data": npy.hex(), "chunks": [first], "rest": 3})
    native = harness.run_all([dict(r) for r in reqs])
    return {"sanitizers": {"miri": sanitize.miri_pass(total, reqs, "schedules", "C18", expect=native)}}
