"""C04 - marginalization is the array sum over the removed axes.

L: Spectrum::marginalize through harness op `spec`; oracle = pure-Python axis sum (cross-checked
against numpy at the start of every shard) on integer data, exact equality.
C: `sfs view -m/-M` and create(joint) | view -m B == create(others) on complete call sets.
"""
import itertools
from .. import harness, cli
from ..common import rng_for, h2f, f2h, digest
from ..engines import create as E
from ..gen import spectra as GS, callsets as GC
from ..oracle import spectrum as O

LEVEL = "exploration"
NEEDS = ["harness", "cli"]
RULE = ("L: shapes with 1-5 axes, lengths 1-6 (quick: all <=3-axis shapes with lengths<=4 plus a seeded sample of larger ones; "
        "thorough: many more), integer data < 2^40 (exact) and fractional / wide-magnitude data (per-cell summation error bound), EVERY ordered subset of axes incl. the full set, spectra with 2^16 and more entries (every single axis), plus duplicate and "
        "out-of-range requests; chains of one-at-a-time removals for a sample. C: view -m/-M on text/npy input (and -M lists that name an axis twice, in several options, or together with axes the spectrum does not have: refused or the same set), and "
        "create|view -m vs create on complete data. Non-trivial: >=2 axes, >=1 axis removed, removed axes not all of "
        "length 1, and data not constant; distinct = digest(shape, data, axes order).")
ASSUMPTIONS = ["integer-valued data below 2^40: every f64 sum is exact whatever the summation order",
               "oracle: nested-loop sum, cross-checked against numpy.sum on every shard's first 50 cases"]
FLOORS = {"quick": {"evaluations": 3000, "distinct_nontrivial": 1500, "counts": {"L_orders": 2500, "C_runs": 100, "L_big_spectra": 8}},
          "thorough": {"evaluations": 200000, "distinct_nontrivial": 100000, "counts": {"L_orders": 200000, "C_runs": 3000}}}
NSHARD = 32
SIZES = {"quick": (260, 8, 6), "thorough": (3000, 150, 60)}   # per shard: L shapes, C view cases, C create cases


def plan(tier, seed):
    a, b, c = SIZES[tier]
    return [{"name": "s%d" % i, "shapes": a, "cview": b, "ccreate": c, "i": i} for i in range(NSHARD)]


def orders(d):
    """Every ordered subset of range(d), incl. empty and full."""
    for k in range(0, d + 1):
        for sub in itertools.permutations(range(d), k):
            yield list(sub)


def gen_shape(rng, i, tier):
    if rng.random() < 0.5:
        d = rng.choice([1, 2, 3, 3, 4, 4, 5])
        mx = {1: 6, 2: 6, 3: 6, 4: 5, 5: 4}[d] if tier == "quick" else 6
        return [rng.randint(1, mx) for _ in range(d)]
    small = list(GS.all_shapes(3, 4))
    return small[rng.randrange(len(small))]


def check_L(S, p, tier):
    seed = S.seed
    cases = []
    if "replay" in p:
        cases = [p["replay"]["case"]]
    else:
        for i in range(p["shapes"]):
            rng = rng_for(seed, "c04", p["name"], i)
            shape = gen_shape(rng, i, tier)
            kind = rng.choice(["int", "bigint", "sparse", "int", "real", "wide", "gap", "nonfinite"])
            if kind == "nonfinite":
                # ordinary values with a few infinities / NaNs (e.g. the output of `fold --fill inf`): a cell that receives +inf is +inf,
                # one that receives a NaN or both infinities is NaN, all others are ordinary sums
                data = [float(rng.randrange(0, 50)) for _ in range(O.prod(shape))]
                for _ in range(rng.randint(1, 3)):
                    data[rng.randrange(len(data))] = rng.choice([float("inf"), float("inf"), float("-inf"), float("nan")])
            elif kind == "gap":
                # a huge cell next to small / zero ones: a rounding remainder of one output cell must not leak into another
                data = [rng.choice([1e16, 3e15 + 0.5, 0.0, 1.0, 0.25, 7.0]) for _ in range(O.prod(shape))]
            else:
                data = GS.values(rng, O.prod(shape), kind)
            d = len(shape)
            allorders = list(orders(d))
            if len(allorders) > 70:
                allorders = [o for o in allorders if len(o) <= 1 or len(o) == d] + rng.sample([o for o in allorders if 1 < len(o) < d], 50)
            bad = [[0, 0], [d], [d + 3], [0, d], [d - 1, d - 1] if d > 1 else [0, 0, 0], [2 ** 63], list(range(d)) + [0]]
            # every short sequence with a repeated axis (adjacent or not) or an out-of-range axis in any position
            seqs = [list(q) for k in range(2, min(d, 3) + 2) for q in itertools.product(range(d + 1), repeat=k)
                    if len(set(q)) < len(q) or d in q]
            bad += seqs if len(seqs) <= 60 else rng.sample(seqs, 60)
            for axes in allorders:
                cases.append({"shape": shape, "data": data, "axes": axes, "kind": "valid" if len(axes) < d else "toomany", "exact": kind in ("int", "bigint", "sparse"),
                              "nonfinite": kind == "nonfinite"})
            for axes in bad:
                cases.append({"shape": shape, "data": data, "axes": axes, "kind": "bad"})
    if "replay" not in p and p["i"] % 4 == 0:
        # spectra with 2^16 and more entries (dozens of samples in 3-4 populations, or one very large one): every single axis removed
        rngb = rng_for(seed, "c04", p["name"], "big")
        for shape in rngb.sample([[300, 300], [41, 41, 41], [70000, 2], [2, 40000], [17, 17, 17, 17], [65536, 1], [256, 257], [3, 21846], [65537, 1], [1, 131075]], 2):
            n_ = O.prod(shape)
            data = [float((k_ * 7919) % 1000) for k_ in range(n_)]
            for a_ in range(len(shape)):
                cases.append({"shape": shape, "data": data, "axes": [a_], "kind": "valid", "exact": True, "big": True})
            S.count("L_big_spectra")
    reqs = [{"op": "spec", "do": "marginalize", "shape": c["shape"], "data": GS.hexes(c["data"]), "axes": c["axes"]} for c in cases]
    results = harness.run_all(reqs)
    chains = []
    for ci, (c, r) in enumerate(zip(cases, results)):
        shape, data, axes = c["shape"], c["data"], c["axes"]
        d = len(shape)
        wit = {"case": c if not c.get("big") else dict(c, data="(k * 7919) % 1000 for k in range(prod(shape))"), "level": "L"}
        tag = "shape %r axes %r" % (shape, axes)
        S.count("L_orders")
        if "panic" in r or r.get("died"):
            S.viol("C04:panic", "[L %s] marginalize panicked/died: %s" % (tag, str(r)[:300]), wit)
            continue
        dup = len(set(axes)) != len(axes)
        oob = any(a >= d for a in axes)
        toomany = len(axes) >= d
        if dup or oob or toomany:
            S.count("L_error_requests")
            if "err" not in r:
                S.viol("C04:invalid-accepted", "[L %s] invalid request accepted: %s" % (tag, str(r)[:200]), wit)
            else:
                kinds = [k for k, f in (("DuplicateAxis", dup), ("AxisOutOfBounds", oob), ("TooManyAxes", toomany)) if f]
                if not any(r["err"].startswith(k) for k in kinds):
                    S.viol("C04:wrong-error", "[L %s] error %r does not name the violated rule %r" % (tag, r["err"], kinds), wit)
            S.case(key=digest([shape, axes, "err"]), nontrivial=False)
            continue
        if "err" in r:
            S.viol("C04:valid-rejected", "[L %s] valid request rejected: %s" % (tag, r["err"]), wit)
            continue
        if c.get("nonfinite"):
            import math as _m
            keep_ = [j for j in range(d) if j not in axes]
            eshape_ = [shape[j] for j in keep_]
            terms = {}
            for f_, ix in enumerate(itertools.product(*[range(x) for x in shape])):
                terms.setdefault(tuple(ix[j] for j in keep_), []).append(data[f_])
            gshape, gdata = r["shape"], [h2f(x) for x in r["data"]]
            badc = []
            for i_, key in enumerate(itertools.product(*[range(x) for x in eshape_])):
                ts = terms[key]
                if any(_m.isnan(t) for t in ts) or (float("inf") in ts and float("-inf") in ts):
                    okc = _m.isnan(gdata[i_]) if i_ < len(gdata) else False
                    e_ = "NaN"
                elif float("inf") in ts or float("-inf") in ts:
                    e_ = float("inf") if float("inf") in ts else float("-inf")
                    okc = i_ < len(gdata) and gdata[i_] == e_
                else:
                    e_ = float(sum(ts))
                    okc = i_ < len(gdata) and gdata[i_] == e_
                if not okc:
                    badc.append((i_, gdata[i_] if i_ < len(gdata) else None, e_))
            S.count("L_nonfinite_cells", len(gdata))
            if gshape != eshape_ or badc:
                S.viol("C04:value-nonfinite", "[L %s] cells with infinite / NaN terms: (flat, got, expected) %r" % (tag, badc[:4]), wit)
            S.case(key=digest([shape, GS.hexes(data)[:40], axes, "nf"]), nontrivial=d >= 2 and len(axes) >= 1)
            continue
        if not c.get("exact", True):
            # floating data: every output cell must be the sum of ITS OWN terms; a correct summation in any order is within
            # n*2^-52*sum|terms| of the exact value (standard bound), computed here per cell with exact rationals
            from fractions import Fraction
            fshape, fsum = O.marginalize(shape, [Fraction(x) for x in data], axes)
            _, fabs = O.marginalize(shape, [abs(Fraction(x)) for x in data], axes)
            nterms = O.prod(shape) // max(1, O.prod(fshape))
            gshape, gdata = r["shape"], [h2f(x) for x in r["data"]]
            badc = [(i, g, float(e)) for i, (g, e, a) in enumerate(zip(gdata, fsum, fabs))
                    if abs(Fraction(g) - e) > a * nterms * Fraction(1, 2 ** 51)]
            S.count("L_float_cells", len(gdata))
            if gshape != fshape or badc:
                S.viol("C04:value-float", "[L %s] cells differ from the sum of their own terms beyond the summation error bound: (flat, got, exact) %r" % (tag, badc[:4]), wit)
            S.case(key=digest([shape, GS.hexes(data)[:40], axes, "f"]), nontrivial=d >= 2 and len(axes) >= 1)
            continue
        eshape, edata = O.marginalize(shape, [int(x) for x in data], axes)
        if ci < 50:
            ns, nd = O.marginalize_numpy(shape, [int(x) for x in data], axes) if axes else (eshape, edata)
            if ns != eshape or [int(x) for x in nd] != edata:
                S.inconc("oracle self-check failed (python vs numpy) for %s" % tag)
                continue
        gshape, gdata = r["shape"], [h2f(x) for x in r["data"]]
        if gshape != eshape or gdata != [float(x) for x in edata]:
            S.viol("C04:value", "[L %s] got shape %r data %r..., expected shape %r data %r..." % (tag, gshape, gdata[:8], eshape, edata[:8]), wit)
        elif sum(edata) != sum(int(x) for x in data):
            S.inconc("oracle mass mismatch")
        nontrivial = d >= 2 and len(axes) >= 1 and any(shape[a] > 1 for a in axes) and len(set(data)) > 1
        S.case(key=digest([shape, data, axes]), nontrivial=nontrivial)
        if len(axes) >= 2 and ci % 7 == 0:
            chains.append((c, r))
        if ci == 3 and p.get("i") == 0:
            S.sample({"level": "L", "shape": shape, "data": data[:12], "axes_in_request_order": axes, "result_shape": gshape, "result": gdata[:12]})
    # one-at-a-time chains: remove the named axes one by one (renumbering done here), compare with the joint result
    state = [(c, r, c["shape"], c["data"], list(c["axes"]), sorted(range(len(c["shape"])))) for c, r in chains]
    while state:
        reqs = []
        for c, r, shape, data, todo, names in state:
            reqs.append({"op": "spec", "do": "marginalize", "shape": shape, "data": GS.hexes(data), "axes": [names.index(todo[0])]})
        res = harness.run_all(reqs)
        nxt = []
        for (c, r, shape, data, todo, names), rr in zip(state, res):
            if "shape" not in rr:
                S.viol("C04:chain-fail", "[L chain %r %r] single-axis step failed: %s" % (c["shape"], c["axes"], str(rr)[:200]), {"case": c, "level": "L"})
                continue
            names = [n for n in names if n != todo[0]]
            todo = todo[1:]
            data = [h2f(x) for x in rr["data"]]
            if todo:
                nxt.append((c, r, rr["shape"], data, todo, names))
            else:
                S.count("L_chains")
                if rr["shape"] != r["shape"] or rr["data"] != r["data"]:
                    S.viol("C04:joint-vs-sequential", "[L shape %r axes %r] removing one at a time gives %r, jointly %r" % (
                        c["shape"], c["axes"], data[:8], r["data"][:8]), {"case": c, "level": "L"})
        state = nxt


def check_C_view(S, p):
    seed = S.seed
    for i in range(p["cview"]):
        rng = rng_for(seed, "c04", p["name"], "cv", i)
        shape = GS.random_shape(rng, 2, 4, 5)
        data = GS.values(rng, O.prod(shape), "int")
        d = len(shape)
        k = rng.randint(1, d - 1)
        remove = rng.sample(range(d), k)
        keep = [j for j in range(d) if j not in remove]
        rng.shuffle(keep)
        inp = GS.text_spectrum(shape, data, 0) if rng.random() < 0.5 else GS.npy_bytes(shape, data, rng.choice(["<f8", "<i8", ">f4", "<u4"]))
        via_path = rng.random() < 0.5
        def run(args):
            if via_path:
                return cli.sfs(["view"] + args + [E.tmpfile(inp)])
            return cli.sfs(["view"] + args, stdin=inp)
        r1 = run(["-m", ",".join(map(str, remove))])
        r2 = run(["-M", ",".join(map(str, keep))])
        S.count("C_runs", 2)
        from .. import replay as R
        wit = {"level": "C", "shape": shape, "data": data, "remove": remove, "keep": keep, "input_b64": E.b64(inp), "r1": r1.brief(), "r2": r2.brief()}
        eshape, edata = O.marginalize(shape, [int(x) for x in data], remove)
        exp = GS.text_spectrum(eshape, edata, 6)
        if r1.rc != 0 or r1.out != exp:
            S.viol("C04:cli-value", "[C view -m %r on %r] rc %s stdout %r expected %r" % (remove, shape, r1.rc, r1.out[:200], exp[:200]), dict(wit, replay=R.exact(r1, exp)))
        if r2.rc != r1.rc or r2.out != r1.out:
            S.viol("C04:keep-vs-remove", "[C shape %r] -M %r differs from -m %r: %r vs %r" % (shape, keep, remove, r2.out[:200], r1.out[:200]), dict(wit, replay=R.same(r1, r2)))
        # the keep list written redundantly: an axis named twice, named in several -M options, or accompanied by axes the spectrum
        # does not have. Such a request is either refused or means the same set of axes
        keep3 = list(keep) + [rng.choice(keep) for _ in range(rng.randint(1, 2))]
        if rng.random() < 0.4:
            keep3 += [d + rng.randint(0, 5) for _ in range(rng.randint(1, 2))]
        rng.shuffle(keep3)
        if rng.random() < 0.5:
            args3 = ["-M", ",".join(map(str, keep3))]
        else:
            args3 = [x for a_ in keep3 for x in ("-M", str(a_))]
        r3 = run(args3)
        S.count("C_runs")
        S.count("C_redundant_keep_lists")
        refused = r3.rc != 0 and not r3.out and r3.err.strip() and not r3.panicked
        if not refused and (r3.rc != r1.rc or r3.out != r1.out):
            S.viol("C04:keep-redundant", "[C shape %r] view %s is neither refused nor equal to -m %r: rc %s stdout %r, expected %r" % (
                shape, " ".join(args3), remove, r3.rc, r3.out[:200], r1.out[:200]), dict(wit, redundant=args3, replay=R.same(r1, r3)))
        S.case(key=digest([shape, data, remove, "C"]), nontrivial=any(shape[a] > 1 for a in remove) and len(set(data)) > 1)
        if i == 0 and p.get("i") == 1:
            S.sample({"level": "C", "argv": r1.argv, "stdout": r1.out.decode()[:200], "keep_form_argv": r2.argv})
    # error requests at the CLI: non-zero exit, nothing on stdout
    rng = rng_for(seed, "c04", p["name"], "cerr")
    shape = GS.random_shape(rng, 1, 3, 4)
    inp = GS.text_spectrum(shape, GS.values(rng, O.prod(shape), "int"), 0)
    d = len(shape)
    for args in (["-m", "0,0"], ["-m", str(d)], ["-m", ",".join(map(str, range(d)))], ["-M", ""] if False else ["-m", "%d,%d" % (d + 1, 0)]):
        r = cli.sfs(["view"] + args, stdin=inp)
        S.count("C_runs")
        S.count("C_error_requests")
        if r.rc == 0 or r.out:
            from .. import replay as R
            S.viol("C04:cli-invalid-accepted", "[C view %r on shape %r] rc %s stdout %r" % (args, shape, r.rc, r.out[:100]), {"level": "C", "argv": r.argv, "input_b64": E.b64(inp), "replay": R.reject(r)})


def check_C_create(S, p):
    seed = S.seed
    for i in range(p["ccreate"]):
        rng = rng_for(seed, "c04", p["name"], "cc", i)
        cs = GC.random_callset(rng, nsamples=rng.choice([3, 4, 6, 9]), nrecords=rng.choice([5, 20, 60]), complete_only=True)
        npops = rng.randint(2, min(4, len(cs.samples)))
        smap = GC.random_sample_map(rng, cs.samples, npops=npops, subset=False)
        pops = []
        for _, q in smap:
            if q not in pops:
                pops.append(q)
        k = rng.randint(1, len(pops) - 1)
        remove = sorted(rng.sample(range(len(pops)), k))
        rest = [(s, q) for s, q in smap if pops.index(q) not in remove]
        data = E.encode(cs, rng.choice(E.CONTAINERS), rng)
        a = E.cli_create(data, smap)
        b = cli.sfs(["view", "--precision", "0", "-m", ",".join(map(str, remove))], stdin=a.out)
        c = E.cli_create(data, rest)
        S.count("C_runs", 3)
        S.count("C_create_marginalize_pipelines")
        if a.rc or b.rc or c.rc or b.out != c.out:
            S.viol("C04:create-marginalize", "[C create|view -m %r] differs from create on the remaining populations: %r vs %r (rc %s %s %s)" % (
                remove, b.out[:200], c.out[:200], a.rc, b.rc, c.rc),
                {"level": "C", "vcf": cs.to_vcf().decode()[:20000], "map": smap, "remove": remove, "a": a.brief(), "b": b.brief(), "c": c.brief(),
                 "replay": __import__("vf.replay", fromlist=["x"]).pipeline_same([a, b], [c])})
        S.case(key=digest([E.codes(cs), smap, remove]), nontrivial=len(cs.records) >= 2)


def shard(S, p):
    if "replay" in p:
        if p["replay"].get("level") == "L":
            check_L(S, p, S.tier)
        else:
            S.inconc("C-level witnesses carry argv + input for manual replay")
        return
    check_L(S, p, S.tier)
    check_C_view(S, p)
    check_C_create(S, p)
