"""C16 - damaged spectrum files are rejected, never read as a different spectrum.

Fault enumeration, exhaustive per file: EVERY strict prefix and EVERY extension by 1..16 bytes of
generated npy files (L: Array::read_npy; C: view/fold/stat), every single value-token removal or
insertion and every product-changing shape edit of text files. A panic is not a rejection.
"""
from .. import harness, cli
from ..common import rng_for, digest, panic_sig
from ..engines import create as E
from ..gen import spectra as GS
from ..oracle import spectrum as O

LEVEL = "fault_enumeration"
NEEDS = ["harness", "cli"]
EXHAUSTIVE = {"quick": True, "thorough": True}
RULE = ("npy files (1-4 axes, 136-700 bytes, dtypes f8/f4/i4/u2/i8, versions 1-3): every truncation offset 0..len-1 and every extension 1..16 (random, zero, another npy file or its first bytes, and damaged Fortran-order files, "
        "and whitespace-only bytes), declared shapes that disagree with the number of values incl. products that agree only modulo 2^64, at L for all files and at C (view, fold, stat) for a subset; text files: every single token removal, duplication/insertion "
        "(on the value line and on extra lines), value lines wrapped over several lines with a line / token missing or repeated, and shape edits that change the product; the damaged text files also one after the other through the library in one process with the intact file in between; each damaged input must be REJECTED: Err at L; exit != 0, "
        "empty stdout, no panic at C (a quarter of the text cases again with stderr -> /dev/full: still exit != 0). Non-trivial: every damaged input; distinct = digest(bytes).")
ASSUMPTIONS = ["a text shape edit that keeps the product (e.g. 2/6 -> 3/4) is a different valid file and is not generated",
               "truncating a text file inside trailing whitespace/newline yields the same spectrum and is not a damage case"]
FLOORS = {"quick": {"evaluations": 15000, "distinct_nontrivial": 12000, "counts": {"L_truncations": 8000, "L_extensions": 600, "C_damaged_runs": 1500, "text_edits": 1500, "C_damaged_runs_stderr_full": 300, "text_wrapped_controls": 50, "large_damaged_files": 90, "L_text_sequence_reads": 1500}},
          "thorough": {"evaluations": 250000, "distinct_nontrivial": 200000, "counts": {"L_truncations": 150000, "L_extensions": 9000, "C_damaged_runs": 30000, "text_edits": 25000}}}
NSHARD = 32
SUBS = [["view"], ["fold"], ["stat", "-s", "sum"]]


def plan(tier, seed):
    q = tier == "quick"
    return [{"name": "s%d" % i, "i": i, "npy": 2 if q else 20, "npy_cli": (1 if i % 8 == 0 else 0) if q else 2, "text": 2 if q else 20} for i in range(NSHARD)]


def gen_npy(rng):
    shape = GS.random_shape(rng, 1, 4, 5)
    descr = rng.choice(["<f8", "<f8", ">f8", "<f4", "<i4", ">u2", "<i8"])
    vals = GS.values(rng, O.prod(shape), "int")
    if descr[1:] == "u2":
        vals = [v % 60000 for v in vals]
    data = GS.npy_bytes(shape, vals, descr, version=rng.choice([(1, 0), (1, 0), (2, 0), (3, 0)]))
    if rng.random() < 0.3:
        # the same array under a hand-spelled header that names 'shape' and 'descr' twice (the last occurrence counts): cutting or
        # extending the file must not make an earlier, wrong occurrence fit
        from ..oracle import npyfmt
        parsed = npyfmt.parse(data)
        data = npyfmt.build(npyfmt.spell(descr, False, shape, "repeated-key"), parsed["payload"], parsed["version"])
    return shape, descr, data


def check_npy(S, p):
    seed = S.seed
    for fi in range(p["npy"]):
        rng = rng_for(seed, "c16", p["name"], "npy", fi)
        shape, descr, data = gen_npy(rng)
        n = len(data)
        S.observe("npy_file_lengths", n)
        reqs = [{"op": "read_npy", "data": data.hex()}]
        meta = [("whole", None)]
        for cut in range(n):
            reqs.append({"op": "read_npy", "data": data[:cut].hex()})
            meta.append(("trunc", cut))
        for ext in range(1, 17):
            for fill in ("rand", "zero"):
                extra = bytes(rng.randrange(256) for _ in range(ext)) if fill == "rand" else b"\0" * ext
                reqs.append({"op": "read_npy", "data": (data + extra).hex()})
                meta.append(("ext", (ext, fill)))
        res = harness.run_all(reqs)
        wit0 = {"level": "L", "file_hex": data.hex(), "shape": shape, "descr": descr}
        if "data" not in res[0]:
            S.viol("C16:valid-rejected", "[L npy %s %r] the undamaged file is rejected: %s" % (descr, shape, str(res[0])[:200]), wit0)
            continue
        for (what, arg), r in zip(meta[1:], res[1:]):
            S.count("L_truncations" if what == "trunc" else "L_extensions")
            if "panic" in r or r.get("died"):
                S.viol("C16:panic:%s" % panic_sig(str(r.get("panic", ""))), "[L npy %s %r %s %r] panicked: %s" % (descr, shape, what, arg, str(r)[:200]), dict(wit0, damage=[what, arg]))
            elif "data" in r:
                S.viol("C16:accepted:%s" % ("prefix" if what == "trunc" else "extension"),
                       "[L npy %s shape %r, %d bytes] %s was read as shape %r with %d values" % (
                           descr, shape, n, "the %d-byte prefix" % arg if what == "trunc" else "the file plus %d %s trailing byte(s)" % arg, r["shape"], len(r["data"])),
                       dict(wit0, damage=[what, arg]))
            S.case(key="%s|%s|%r" % (digest(data), what, arg), nontrivial=True)
        if fi == 0 and p["i"] == 0:
            S.sample({"level": "L", "file": "npy %s shape %r, %d bytes" % (descr, shape, n), "truncation_offsets": "0..%d (all)" % (n - 1), "extensions": "1..16 x {random, zero}",
                      "example_rejection": res[1 + n // 2].get("err")})
    for fi in range(p["npy_cli"]):
        rng = rng_for(seed, "c16", p["name"], "npycli", fi)
        shape, descr, data = gen_npy(rng)
        n = len(data)
        for sub in SUBS:
            damaged = [("trunc", cut, data[:cut]) for cut in range(n)] + [("ext", e, data + bytes(rng.randrange(256) for _ in range(e))) for e in range(1, 17)]
            for what, arg, d in damaged:
                via_path = (arg % 2 == 0)
                r = cli.sfs(sub + [E.tmpfile(d, ".npy")]) if via_path else cli.sfs(sub, stdin=d)
                S.count("C_damaged_runs")
                S.count("C_npy_%s" % sub[0])
                check_cli_reject(S, r, "npy %s %r %s %r via %s" % (descr, shape, what, arg, "path" if via_path else "stdin"), sub, d)
                S.case(key="%s|%s|%s|%r" % (digest(data), sub[0], what, arg), nontrivial=True)


WS_FILLS = [b"\n", b" ", b"\t", b"\r", b"\x0c", b"\r\n", b" \n\t"]


def check_npy_extras(S, p):
    """Whitespace-only extensions (a lenient reader might trim them) and npy headers whose declared shape disagrees with the
    number of values, incl. products that only agree modulo 2^64 - through the auto-detecting reader (L read_file) and the CLI."""
    seed = S.seed
    from ..oracle import npyfmt
    rng = rng_for(seed, "c16", p["name"], "extras")
    shape, descr, data = gen_npy(rng)
    damaged = []
    # what follows the file is itself (the beginning of) an npy file
    for tail in (data, data[:6], data[:10], data[:16], data[:len(data) // 2], b"\x93NUMPY", b"\x93NUMPY\x01\x00"):
        damaged.append(("followed by %d bytes starting with the npy magic" % len(tail), data + tail))
    # a Fortran-ordered file (rejected as it is) cut or extended at value boundaries and elsewhere
    import numpy as _np, io as _io
    from numpy.lib import format as _nf
    fa = _np.asfortranarray(_np.arange(24, dtype="<f8").reshape(rng.choice([(2, 3, 4), (4, 6), (3, 1, 8)])))
    buf = _io.BytesIO()
    _nf.write_array(buf, fa, version=(1, 0))
    fdata = buf.getvalue()
    off0 = len(fdata) - 24 * 8
    for cut in sorted({off0, off0 + 8, off0 + 16, len(fdata) - 8, len(fdata) - 16, off0 + 3, len(fdata) - 1} | {rng.randrange(10, len(fdata)) for _ in range(6)}):
        damaged.append(("Fortran-order file cut to %d of %d bytes" % (cut, len(fdata)), fdata[:cut]))
    for ext in (8, 16, 24, 1, 5):
        damaged.append(("Fortran-order file plus %d bytes" % ext, fdata + bytes(rng.randrange(256) for _ in range(ext))))
    damaged.append(("Fortran-order file, intact (unsupported order)", fdata))
    for n in range(1, 17):
        for fill in WS_FILLS:
            damaged.append(("whitespace extension %d x %r" % (n, fill), data + (fill * n)[:n]))
    # declared shape vs number of values
    parsed = npyfmt.parse(data)
    payload = parsed["payload"]
    item = int(descr[2:])
    nvals = len(payload) // item
    version = parsed["version"]
    shapes = [[nvals + 1], [nvals - 1] if nvals > 1 else [nvals + 2], shape + [2], [2] + shape, [nvals + (1 << 64) // item], [(1 << 64) // item + nvals, 1],
              [1 << 32, 1 << 32], [nvals, 1 << 61], [(1 << 61) + nvals] if item == 8 else [(1 << 62) + nvals], [nvals * 2], [max(1, nvals // 2)] if nvals // 2 != nvals else [nvals + 3]]
    for sh in shapes:
        if O.prod(sh) == nvals:
            continue
        hdr = "{'descr': '%s', 'fortran_order': False, 'shape': (%s,), }" % (descr, ", ".join(map(str, sh)))
        damaged.append(("declared shape %r for %d values" % (sh, nvals), npyfmt.build(hdr, payload, version)))
    if p["i"] % 4 == 3:
        # a LARGE file (2^15 .. 2^17 values, counts divisible by 2..16) cut short or followed by further bytes: a decoder that works on the
        # payload in blocks must still notice what is missing or left over
        nbig = rng.choice([32768, 65536, 131072, 65520, 98304])
        bshape = [nbig] if rng.random() < 0.5 else [2, nbig // 2]
        bdescr = rng.choice(["<f8", "<f4", "<i4", ">u2"])
        bdata = GS.npy_bytes(bshape, [float((k_ * 31) % 199) for k_ in range(nbig)], bdescr, version=rng.choice([(1, 0), (2, 0)]))
        isz = int(bdescr[2:])
        for ext in (1, isz, 2 * isz, 8, 16, 64, nbig // 16 * isz):
            damaged.append(("large file (%d values, %s) plus %d bytes (extension)" % (nbig, bdescr, ext), bdata + bytes(rng.randrange(256) for _ in range(ext))))
        for cut in (isz, 1, 8 * isz, nbig // 8 * isz, nbig // 16 * isz + 3):
            damaged.append(("large file (%d values, %s) cut short by %d bytes" % (nbig, bdescr, cut), bdata[:-cut]))
        S.count("large_damaged_files", 12)
    reqs = [{"op": "read_file", "path": E.tmpfile(d, ".npy")} for _, d in damaged] + [{"op": "read_npy", "data": d.hex()} for _, d in damaged]
    res = harness.run_all(reqs)
    for k, ((desc, d), r) in enumerate(zip(damaged + damaged, res)):
        S.count("L_extensions" if "extension" in desc else "L_shape_edits")
        wit = {"level": "L", "file_hex": d.hex() if len(d) < 100000 else None, "damage_desc": desc, "via": "read_file" if k < len(damaged) else "read_npy"}
        if "panic" in r or r.get("died"):
            S.viol("C16:panic:%s" % panic_sig(str(r.get("panic", ""))), "[L npy %s %r: %s] panicked: %s" % (descr, shape, desc, str(r)[:200]), wit)
        elif "data" in r:
            S.viol("C16:accepted:%s" % ("extension" if "extension" in desc else "shape-mismatch"), "[L %s npy %s %r: %s] was read as shape %r with %d values" % (
                wit["via"], descr, shape, desc, r["shape"], len(r["data"])), wit)
        S.case(key="%s|%s|%d" % (digest(d), desc, k), nontrivial=True)
    for k, (desc, d) in enumerate(damaged):
        sub = SUBS[k % 3]
        r = cli.sfs(sub, stdin=d) if k % 2 else cli.sfs(sub + [E.tmpfile(d, ".npy")])
        S.count("C_damaged_runs")
        S.count("C_npy_extras")
        check_cli_reject(S, r, "npy %s %r: %s" % (descr, shape, desc), sub, d)
        S.case(key="%s|C|%s" % (digest(d), desc), nontrivial=True)


def check_cli_reject(S, r, what, sub, d):
    from .. import replay as R
    wit = {"level": "C", "argv": r.argv, "input_b64": E.b64(d), "run": r.brief(), "replay": R.reject(r)}
    if r.panicked or r.signal:
        S.viol("C16:panic:%s" % panic_sig(r.err), "[C %r on %s] panicked: %r" % (sub, what, r.err[:200]), wit)
    elif r.timed_out:
        S.inconc("timeout %r on %s" % (sub, what))
    elif r.rc == 0 or r.out:
        S.viol("C16:cli-accepted:%s" % sub[0], "[C %r on %s] damaged input must be rejected: rc %s stdout %r" % (sub, what, r.rc, r.out[:100]), wit)
    elif not r.err.strip():
        S.viol("C16:cli-silent", "[C %r on %s] non-zero exit without a diagnostic" % (sub, what), wit)


def text_edits(rng, shape, toks):
    """Yield (description, bytes) for damaged text files."""
    head = "#SHAPE=<%s>\n" % "/".join(map(str, shape))
    n = len(toks)
    for i in range(n):                                   # removal of token i
        yield "remove token %d" % i, (head + " ".join(toks[:i] + toks[i + 1:]) + "\n").encode()
    for i in range(n + 1):                               # insertion at position i (same line)
        yield "insert token at %d" % i, (head + " ".join(toks[:i] + [rng.choice(toks)] + toks[i:]) + "\n").encode()
    for k in (1, 2, 5):                                  # surplus tokens on extra lines
        yield "extra line with %d token(s)" % k, (head + " ".join(toks) + "\n" + " ".join(rng.choice(toks) for _ in range(k)) + "\n").encode()
    yield "values wrapped over lines plus one", (head + "\n".join(toks) + "\n" + toks[0] + "\n").encode()
    # the value line wrapped over several lines (one row per line, or cut at random places): what is missing is still missing
    if n >= 3:
        row = shape[-1] if len(shape) > 1 and 1 < shape[-1] < n else max(1, n // 3)
        rows = [toks[a:a + row] for a in range(0, n, row)]
        def text_of(rs):
            return (head + "\n".join(" ".join(r_) for r_ in rs) + "\n").encode()
        yield "wrapped over %d lines, last line missing" % len(rows), text_of(rows[:-1])
        yield "wrapped over %d lines, first line missing" % len(rows), text_of(rows[1:])
        if len(rows) >= 3:
            yield "wrapped over %d lines, a middle line missing" % len(rows), text_of(rows[:1] + rows[2:])
        yield "wrapped over %d lines, last line twice" % len(rows), text_of(rows + rows[-1:])
        k_ = rng.randrange(len(rows))
        if len(rows[k_]) > 1:
            yield "wrapped over %d lines, one token of line %d missing" % (len(rows), k_), text_of(rows[:k_] + [rows[k_][1:]] + rows[k_ + 1:])
        yield "wrapped over %d lines, one token added to line %d" % (len(rows), k_), text_of(rows[:k_] + [rows[k_] + [toks[0]]] + rows[k_ + 1:])
    # something that is not a number on a line of its own (a comment in another tool's style), alone or followed by further values
    for marker in ("## note", "# x", "##", "// c", "NA", "#SHAPE=<%s>" % "/".join(map(str, shape))):
        yield "complete values, then a line %r" % marker, (head + " ".join(toks) + "\n" + marker + "\n").encode()
        yield "complete values, then a line %r and more values" % marker, (head + " ".join(toks) + "\n" + marker + "\n" + " ".join(toks[:max(1, n // 2)]) + "\n").encode()
        yield "a line %r between the header and the values" % marker, (head + marker + "\n" + " ".join(toks) + "\n").encode()
    yield "no values", head.encode()
    yield "half the values", (head + " ".join(toks[:n // 2]) + "\n").encode()
    yield "the other half of the values", (head + " ".join(toks[n // 2:]) + "\n").encode()
    # shape edits that change the product
    for j in range(len(shape)):
        for delta in (1, -1, 2):
            s2 = list(shape)
            s2[j] += delta
            if s2[j] >= 1 and O.prod(s2) != n:
                yield "shape %r -> %r" % (shape, s2), ("#SHAPE=<%s>\n" % "/".join(map(str, s2)) + " ".join(toks) + "\n").encode()
    if len(shape) > 1 and O.prod(shape[:-1]) != n:
        yield "axis dropped", ("#SHAPE=<%s>\n" % "/".join(map(str, shape[:-1])) + " ".join(toks) + "\n").encode()
    if n != O.prod(shape + [2]):
        yield "axis added", ("#SHAPE=<%s>\n" % "/".join(map(str, shape + [2])) + " ".join(toks) + "\n").encode()


def check_text(S, p):
    seed = S.seed
    for fi in range(p["text"]):
        rng = rng_for(seed, "c16", p["name"], "text", fi)
        shape = GS.random_shape(rng, 1, 3, 5)
        if O.prod(shape) < 2:
            shape = [3]
        vals = GS.values(rng, O.prod(shape), rng.choice(["int", "real"]))
        toks = ["%.*f" % (rng.choice([0, 2, 6]), v) for v in vals]
        good = ("#SHAPE=<%s>\n%s\n" % ("/".join(map(str, shape)), " ".join(toks))).encode()
        g = cli.sfs(["view"], stdin=good)
        if g.rc != 0:
            S.viol("C16:valid-rejected", "[C view] undamaged text file rejected: %r" % g.err[:200], {"level": "C", "input_b64": E.b64(good)})
            continue
        # control: the same values wrapped over several lines are the same spectrum
        n_ = len(toks)
        row_ = shape[-1] if len(shape) > 1 and 1 < shape[-1] < n_ else max(1, n_ // 3)
        wrapped = ("#SHAPE=<%s>\n%s\n" % ("/".join(map(str, shape)), "\n".join(" ".join(toks[a:a + row_]) for a in range(0, n_, row_)))).encode()
        gw = cli.sfs(["view"], stdin=wrapped)
        S.count("text_wrapped_controls")
        if gw.rc != 0 or gw.out != g.out:
            S.viol("C16:valid-rejected", "[C view] undamaged text file with the values wrapped over lines: rc %s stdout %r stderr %r; on one line: %r" % (
                gw.rc, gw.out[:100], gw.err[:200], g.out[:100]), {"level": "C", "input_b64": E.b64(wrapped)})
        for k, (desc, d) in enumerate(text_edits(rng, shape, toks)):
            sub = SUBS[k % 3]
            r = cli.sfs(sub, stdin=d) if k % 2 else cli.sfs(sub + [E.tmpfile(d, ".sfs")])
            S.count("text_edits")
            S.count("C_damaged_runs")
            check_cli_reject(S, r, "text shape %r: %s" % (shape, desc), sub, d)
            if k % 4 == 1:
                # the rejection must not depend on the diagnostic being deliverable: stderr pointing at a full device
                r2 = cli.sfs(sub, stdin=d, stderr_path="/dev/full")
                S.count("C_damaged_runs_stderr_full")
                if r2.rc == 0 or r2.out:
                    from .. import replay as R_
                    S.viol("C16:cli-accepted:stderr-full:%s" % sub[0], "[C %r on text shape %r: %s, stderr -> /dev/full] damaged input must still be rejected: rc %s stdout %r" % (
                        sub, shape, desc, r2.rc, r2.out[:100]), {"level": "C", "argv": r2.argv, "input_b64": E.b64(d), "stderr": "/dev/full", "rc": r2.rc})
            S.case(key=digest(d), nontrivial=True)
            if fi == 0 and p["i"] == 1 and k == 2:
                S.sample({"level": "C", "damage": desc, "input": d.decode()[:200], "argv": r.argv, "rc": r.rc, "stderr": r.err.decode()[:200]})
        # the same damaged files through the library, ONE AFTER THE OTHER IN ONE PROCESS, with the intact file in between: a rejected
        # file must leave nothing behind that makes the next one look complete (or the intact one look damaged)
        edits = list(text_edits(rng_for(seed, "c16", p["name"], "text", fi), shape, toks))
        seq = []
        for k, (desc, d) in enumerate(edits):
            seq.append((desc, d, False))
            if k % 4 == 1:
                seq.append(("intact", good, True))
        lres = harness.run_all([{"op": "read_file", "path": E.tmpfile(d, ".sfs")} for _, d, _ in seq])
        want_vals = [float(t) for t in toks]
        for (desc, d, ok_expected), r in zip(seq, lres):
            S.count("L_text_sequence_reads")
            wit = {"level": "L", "damage_desc": desc, "file_text": d.decode("latin1")[:2000], "sequence": [x[0] for x in seq][:60]}
            if "panic" in r or r.get("died"):
                S.viol("C16:panic:%s" % panic_sig(str(r.get("panic", ""))), "[L text shape %r: %s, read in sequence] panicked: %s" % (shape, desc, str(r)[:200]), wit)
            elif ok_expected:
                from ..common import h2f as _h2f
                if "data" not in r or r["shape"] != shape or [_h2f(x) for x in r["data"]] != want_vals:
                    S.viol("C16:valid-rejected:sequence", "[L text shape %r] the intact file, read after a rejected one in the same process: %s" % (shape, str(r)[:200]), wit)
            elif "data" in r:
                S.viol("C16:accepted:text-sequence", "[L text shape %r: %s, read after other rejected files in the same process] was read as shape %r with %d values" % (
                    shape, desc, r["shape"], len(r["data"])), wit)


def shard(S, p):
    if "replay" in p:
        w = p["replay"]
        if w.get("level") == "L" and "file_hex" in w:
            data = bytes.fromhex(w["file_hex"])
            what, arg = w.get("damage", ["trunc", 0])
            d = data[:arg] if what == "trunc" else data + b"\0" * (arg[0] if isinstance(arg, list) else arg)
            r = harness.run_all([{"op": "read_npy", "data": d.hex()}])[0]
            if "data" in r:
                S.viol("C16:accepted:replay", "damaged file accepted: shape %r" % r["shape"], w)
            S.case(key="replay", nontrivial=True)
        else:
            S.inconc("witness carries argv + input for manual replay")
        return
    check_npy(S, p)
    check_npy_extras(S, p)
    check_text(S, p)


def post(total, tier, seed):
    """Thorough: the damaged-file corpus of one npy file and the text edits again under an AddressSanitizer build."""
    import os
    if tier != "thorough" and not os.environ.get("VERIF_SANITIZERS"):
        return {"sanitizers": {"asan": "not run in quick tier"}}
    from .. import sanitize
    rng = rng_for(seed, "c16", "asan")
    cases = []
    for k in range(3):
        shape, descr, data = gen_npy(rng)
        for cut in range(len(data)):
            cases.append((SUBS[cut % 3], data[:cut]))
        for e in range(1, 17):
            cases.append((SUBS[e % 3], data + bytes(rng.randrange(256) for _ in range(e))))
    shape = [2, 3]
    toks = ["1", "2.5", "3", "4", "5", "6"]
    for kk, (desc, d) in enumerate(text_edits(rng, shape, toks)):
        cases.append((SUBS[kk % 3], d))
    return {"sanitizers": {"asan": sanitize.asan_pass(total, cases, "damaged_files", "C16")}}
