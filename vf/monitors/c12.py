"""C12 - output depends only on call data, not container, transport, threads or run.

Differential monitor at C: the same records as vcf / vcf.gz / bgzf bcf / raw bcf, by path or on stdin,
--threads 1..16, several BGZF block layouts, repeated executions, varied environment, one-CPU pinning
and read-delay jitter (shim) must give byte-identical stdout and the same exit status.
Race detection (thorough): ThreadSanitizer build of the binary and Miri (many seeds) on the harness.
"""
import os, subprocess, json, time
from .. import cli, build, harness
from ..common import rng_for, digest, BUILD, VERIF, NCPU
from ..engines import create as E
from ..gen import callsets as G, vcfgen
from ..gen.vcfgen import CallSet, Record, gt

LEVEL = "exploration"
NEEDS = ["cli", "shim"]
RULE = ("call sets (1-40 samples, 0-300 records; a fifth of them with a ploidy error somewhere, so that failing runs are compared too) x "
        "configurations drawn from container {vcf, vcf.gz, bcf, raw bcf} x transport {named pipe given as a path, /dev/stdin, path (file names with conventional, unconventional and misleading extensions), stdin} x --threads {1,2,3,4,8,16} x BGZF layout {single, "
        "one record per block, random cuts, mid-record cuts, stored blocks, empty blocks incl. a leading one, doubled EOF, no EOF marker, an EOF marker written as a stored block, 7-byte blocks, a 1-2 byte first block, non-default MTIME/XFL/OS header bytes} x sample map; the same VCF text without the line feed after its last line (plain and BGZF); plus "
        "repetitions of one configuration, stdin fed through a pipe with a tiny first write, environment changes (LANG, LC_ALL, TZ, HOME unset, cwd, RUST_LOG, NO_COLOR), `taskset -c 0` with 16 "
        "threads and per-read() delays. Verdict: all runs of a call set have the same (exit status, stdout bytes). Non-trivial: a call set with "
        ">= 2 records observed under >= 8 configurations incl. >= 2 containers; distinct = digest(call set, map). Thorough adds TSan (binary) and "
        "Miri many-seeds (harness) as happens-before race detectors.")
ASSUMPTIONS = ["which inflater thread finishes first is not observable from outside: schedules are perturbed, not enumerated; TSan/Miri carry the schedule quantifier",
               "the lone '.' GT (VCF missing value) is never generated: VCF and BCF paths legitimately differ on it (outside the property's diploid domain)"]
FLOORS = {"quick": {"evaluations": 5000, "distinct_nontrivial": 100, "counts": {"runs": 5000, "callsets": 150}},
          "thorough": {"evaluations": 60000, "distinct_nontrivial": 600, "counts": {"runs": 60000, "callsets": 900}}}
NSHARD = 32
THREADS = [1, 2, 3, 4, 8, 16]
LAYOUTS = ["single", "unit", "random", "midrecord", "stored", "empties", "double_eof", "tiny", "tinyfirst", "odd_header", "no_eof", "stored_eof"]
ENVS = [{}, {"LANG": "de_DE.UTF-8", "LC_ALL": "tr_TR.UTF-8"}, {"TZ": "Pacific/Kiritimati"}, {"RUST_LOG": "trace"}, {"NO_COLOR": "1", "CLICOLOR_FORCE": "1"},
        {"HOME": ""}, {"RUST_BACKTRACE": "full"}, {"MALLOC_PERTURB_": "165"}]


def plan(tier, seed):
    q = tier == "quick"
    return [{"name": "s%d" % i, "i": i, "sets": 6 if q else 32, "configs": 22 if q else 60, "reps": 4 if q else 20} for i in range(NSHARD)]


def gen_callset(rng):
    cs = G.random_callset(rng, nsamples=rng.choice([1, 2, 3, 5, 8, 20, 40]), nrecords=rng.choice([0, 1, 2, 5, 20, 80, 300, 1500]),
                          p_missing=rng.choice([0, 0.05, 0.3]), p_multi=rng.choice([0, 0.05]))
    if cs.records and rng.random() < 0.2:
        i = rng.randrange(len(cs.records))
        r = cs.records[i]
        g = list(r.gts)
        g[rng.randrange(len(g))] = rng.choice([gt((0,)), gt((1, 0, 1)), gt((0, 1, None), True)])
        cs.records[i] = Record(r.contig, r.pos, g, ref=r.ref, alts=r.alts, id=r.id, qual=r.qual, filt=r.filt, info=r.info, extra_fmt={})
        cs.fmt_defs = {"GT": ("1", "String")}
        for k, rr in enumerate(cs.records):
            if rr.extra_fmt:
                cs.records[k] = Record(rr.contig, rr.pos, rr.gts, ref=rr.ref, alts=rr.alts, id=rr.id, qual=rr.qual, filt=rr.filt, info=rr.info, extra_fmt={})
    return cs


def one_run(data, smap, project, via, threads, env=None, taskset=False, delay=None):
    args_env = dict(env or {})
    if delay:
        args_env.update({"LD_PRELOAD": build.shim(), "FAILIO_READ_FD": "0", "FAILIO_READ_DELAY_US": str(delay), "FAILIO_SEED": str(delay),
                         "FAILIO_READ_REST": "4096"})
    exe = None
    if taskset:
        # pin the whole process to CPU 0: all worker threads time-slice on one core
        real = build.cli("release")
        wrapper = os.path.join(BUILD, "taskset-sfs.sh")
        if not os.path.exists(wrapper):
            with open(wrapper + ".tmp%d" % os.getpid(), "w") as f:
                f.write("#!/bin/sh\nexec taskset -c 0 %s \"$@\"\n" % real)
            os.chmod(wrapper + ".tmp%d" % os.getpid(), 0o755)
            os.replace(wrapper + ".tmp%d" % os.getpid(), wrapper)
        exe = wrapper
    a = ["create"]
    if smap is not None:
        a += ["-s", ",".join(s if q is None else "%s=%s" % (s, q) for s, q in smap)]
    if project is not None:
        a += ["--project-shape", ",".join(str(m + 1) for m in project), "--precision", "17"]
    a += ["-t", str(threads)]
    if via == "dev-stdin":
        return cli.sfs(a + ["/dev/stdin"], stdin=data, env=args_env, exe=exe, timeout=120)
    if via == "fifo":
        import threading
        fifo = E.tmpfile(b"", ".fifo")
        os.unlink(fifo)
        os.mkfifo(fifo)

        def feed():
            try:
                with open(fifo, "wb") as f:
                    f.write(data)
            except OSError:
                pass
        th = threading.Thread(target=feed, daemon=True)
        th.start()
        r = cli.sfs(a + [fifo], env=args_env, exe=exe, timeout=120)
        if th.is_alive():
            try:
                os.close(os.open(fifo, os.O_RDONLY | os.O_NONBLOCK))
            except OSError:
                pass
        th.join(timeout=10)
        return r
    if via.startswith("path"):
        # the file NAME is not part of the call data either: conventional, unconventional and misleading extensions
        return cli.sfs(a + [E.tmpfile(data, via[4:])], env=args_env, exe=exe, timeout=120)
    return cli.sfs(a, stdin=data, env=args_env, exe=exe, timeout=120)


def shard(S, p):
    if "replay" in p:
        S.inconc("witness carries both inputs and argv for manual replay")
        return
    seed = S.seed
    for si in range(p["sets"]):
        rng = rng_for(seed, "c12", p["name"], si)
        cs = gen_callset(rng)
        smap = None if rng.random() < 0.3 else G.random_sample_map(rng, cs.samples)
        eff = smap if smap is not None else [(s, None) for s in cs.samples]
        project = G.random_project(rng, eff) if rng.random() < 0.3 else None
        vcf = cs.to_vcf()
        head, brecs = cs.bcf_records()
        bcf = head + b"".join(brecs)
        bcf_unit, off = [len(head)], len(head)
        for b in brecs[:-1]:
            off += len(b)
            bcf_unit.append(off)
        encodings = {}

        def enc(container, layout):
            key = (container, layout)
            if key not in encodings:
                if container == "vcf":
                    encodings[key] = vcf
                elif container == "rawbcf":
                    encodings[key] = bcf
                elif container == "vcf.gz":
                    encodings[key] = vcfgen.layouts(vcf, vcfgen.record_cuts_vcf(vcf), rng_for(seed, "lay", si, layout), [layout])[layout]
                else:
                    encodings[key] = vcfgen.layouts(bcf, bcf_unit if brecs else [], rng_for(seed, "lay", si, layout), [layout])[layout]
            return encodings[key]

        outcomes = {}
        first = None
        observed = []

        def record(tag, r, data):
            nonlocal first
            S.count("runs")
            if r.timed_out:
                S.inconc("timeout: %s" % tag)
                return
            key = (r.rc, r.out)
            observed.append(tag)
            if first is None:
                first = (tag, r, data)
            outcomes.setdefault(key, (tag, r, data))

        # the reference configuration, then a spread of configurations
        record("vcf/stdin/t1", one_run(vcf, smap, project, "stdin", 1), vcf)
        configs = []
        for container in ("vcf", "vcf.gz", "bcf", "rawbcf"):
            for via in ("path", "stdin", "fifo", "dev-stdin"):
                configs.append((container, via, rng.choice(THREADS), rng.choice(LAYOUTS)))
        while len(configs) < p["configs"]:
            configs.append((rng.choice(["vcf.gz", "bcf", "vcf.gz", "bcf", "vcf", "rawbcf"]), rng.choice(["path", "stdin"]), rng.choice(THREADS), rng.choice(LAYOUTS)))
        exts = ["", ".vcf", ".vcf.gz", ".bcf", ".bcf.gz", ".gz", ".bgz", ".txt", ".sfs"]
        configs = [(c_, (v_ + rng.choice(exts)) if v_ == "path" else v_, t_, l_) for c_, v_, t_, l_ in configs]
        for container, via, t, layout in configs:
            data = enc(container, layout)
            record("%s[%s]/%s/t%d" % (container, layout if container in ("vcf.gz", "bcf") else "-", via, t), one_run(data, smap, project, via, t), data)
            S.observe("containers", container)
            S.observe("threads", t)
            if container in ("vcf.gz", "bcf"):
                S.observe("layouts", layout)
        # the same text without the line feed after its last line (files written by printf / editors): still the same records
        if vcf.endswith(b"\n"):
            v2 = vcf[:-1]
            record("vcf(no final LF)/%s/t2" % ("stdin" if si % 2 else "path"), one_run(v2, smap, project, "stdin" if si % 2 else "path.vcf", 2), v2)
            g2 = vcfgen.bgzf(v2, [len(v2) // 2] if len(v2) > 2 else [])
            record("vcf.gz(no final LF)/%s/t%d" % ("path" if si % 2 else "stdin", 1 + si % 3), one_run(g2, smap, project, "path.vcf.gz" if si % 2 else "stdin", 1 + si % 3), g2)
            S.count("no_final_newline_runs", 2)
        # repetitions, environment, pinning, jitter
        container, layout = rng.choice([("vcf.gz", "unit"), ("bcf", "unit"), ("bcf", "tiny"), ("vcf.gz", "midrecord")])
        data = enc(container, layout)
        for k in range(p["reps"]):
            record("rep%d %s[%s]/path/t4" % (k, container, layout), one_run(data, smap, project, "path", 4), data)
            S.count("repetitions")
        for env in ENVS[1:]:
            record("env %r %s/stdin/t3" % (sorted(env), container), one_run(data, smap, project, "stdin", 3, env=env), data)
            S.count("environment_runs")
        record("taskset-cpu0 %s[%s]/path/t16" % (container, layout), one_run(data, smap, project, "path", 16, taskset=True), data)
        S.count("pinned_runs")
        # stdin fed by a slow producer: a tiny first write, a pause, then the rest
        for container2 in ("vcf", "vcf.gz", "bcf", "rawbcf"):
            d2 = enc(container2, "unit")
            firstw = rng.choice([1, 2, 3, 10, 27])
            a = ["create"]
            if smap is not None:
                a += ["-s", ",".join(s_ if q is None else "%s=%s" % (s_, q) for s_, q in smap)]
            if project is not None:
                a += ["--project-shape", ",".join(str(m + 1) for m in project), "--precision", "17"]
            record("%s/stdin-dribble(first write %d bytes)/t2" % (container2, firstw), cli.sfs_dribble(a + ["-t", "2"], d2, first=firstw), d2)
            S.count("dribbled_stdin_runs")
        for delay in (50, 400):
            record("read-jitter<=%dus %s[%s]/stdin/t8" % (delay, container, layout), one_run(data, smap, project, "stdin", 8, delay=delay), data)
            S.count("jitter_runs")
        S.count("callsets")
        if len(outcomes) > 1:
            (t1, r1, d1), (t2, r2, d2) = list(outcomes.values())[:2]
            S.viol("C12:differs:%s-vs-%s" % (t1.split("/")[0].split("[")[0].split(" ")[-1], t2.split("/")[0].split("[")[0].split(" ")[-1]),
                   "[C call set %s/%d: %d samples, %d records] configuration %s gave rc %s stdout %r (stderr %r) but %s gave rc %s stdout %r (stderr %r)" % (
                       p["name"], si, len(cs.samples), len(cs.records), t1, r1.rc, r1.out[:100], r1.err[:150], t2, r2.rc, r2.out[:100], r2.err[:150]),
                   {"level": "C", "map": E.map_json(smap), "project": project, "a": {"config": t1, "argv": r1.argv, "input_b64": E.b64(d1[:300000])},
                    "b": {"config": t2, "argv": r2.argv, "input_b64": E.b64(d2[:300000])}, "replay": __import__("vf.replay", fromlist=["x"]).same(r1, r2)})
        S.case(key=digest([E.codes(cs), E.map_json(smap), project]), nontrivial=len(cs.records) >= 2 and len(observed) >= 8, n=len(observed))
        if si == 0 and p["i"] == 0 and first:
            S.sample({"level": "C", "samples": len(cs.samples), "records": len(cs.records), "configurations_observed": observed[:40],
                      "common_outcome": {"rc": first[1].rc, "stdout": first[1].out[:120].decode("latin1")}})


# ------------------------------------------------------------------ sanitizer sub-monitors (thorough)

def post(total, tier, seed):
    if tier != "thorough" and not os.environ.get("VERIF_SANITIZERS"):
        return {"sanitizers": {"tsan": "not run in quick tier", "miri": "not run in quick tier"}}
    out = {}
    rng = rng_for(seed, "c12-san")
    cs = G.random_callset(rng, nsamples=6, nrecords=400, p_missing=0.05, p_multi=0, extras=False)
    vcf = cs.to_vcf()
    head, brecs = cs.bcf_records()
    inputs = [("vcf.gz", vcfgen.bgzf(vcf, vcfgen.record_cuts_vcf(vcf)[::5])), ("bcf", vcfgen.bgzf(head + b"".join(brecs), list(range(len(head), len(head) + sum(map(len, brecs)), 700))))]
    ref = cli.sfs(["create"], stdin=vcf)
    # --- ThreadSanitizer on the real binary
    try:
        exe = build.cli("tsan")
        runs = reports = mismatches = 0
        logdir = os.path.join(BUILD, "run", "tsan-%d" % os.getpid())
        os.makedirs(logdir, exist_ok=True)
        for rep in range(25):
            for name, data in inputs:
                for t in (2, 4, 8, 16):
                    r = cli.sfs(["create", "-t", str(t)], stdin=data, exe=exe, timeout=300,
                                env={"TSAN_OPTIONS": "halt_on_error=1 exitcode=66 log_path=%s/t" % logdir})
                    runs += 1
                    if r.rc == 66 or b"WARNING: ThreadSanitizer" in r.err:
                        reports += 1
                        total.viol("C12:tsan", "[TSan %s -t %d] ThreadSanitizer report: %r" % (name, t, r.err[:600]), {"level": "tsan", "container": name, "threads": t})
                    elif r.rc != ref.rc or r.out != ref.out:
                        mismatches += 1
                        total.viol("C12:tsan-output", "[TSan %s -t %d] output differs from the plain binary" % (name, t), {"level": "tsan"})
        nlogs = len([f for f in os.listdir(logdir)])
        out["tsan"] = {"runs": runs, "reports": reports, "log_files_with_reports": nlogs, "output_mismatches": mismatches}
        total.counts["tsan_runs"] = runs
    except build.BuildError as e:
        out["tsan"] = {"inconclusive": "build failed: %s" % str(e)[-300:]}
    # --- Miri on the harness (multi-worker BGZF read of small multi-block inputs)
    try:
        out["miri"] = miri_pass(total, seed)
    except Exception as e:
        out["miri"] = {"inconclusive": "%s" % str(e)[-400:]}
    return {"sanitizers": out}


def miri_pass(total, seed, nseeds=16):
    rng = rng_for(seed, "c12-miri")
    cs = G.random_callset(rng, nsamples=3, nrecords=6, p_missing=0.1, p_multi=0, extras=False)
    vcf = cs.to_vcf()
    head, brecs = cs.bcf_records()
    reqs = []
    for data in (vcfgen.bgzf(vcf, vcfgen.record_cuts_vcf(vcf)), vcfgen.bgzf(head + b"".join(brecs), [len(head), len(head) + len(brecs[0])])):
        for t in (2, 4):
            reqs.append(E.l2_request(data, None, threads=t))
    expected = harness.run_all([dict(r) for r in reqs])
    res = run_miri(reqs, nseeds)
    if "inconclusive" in res:
        return res
    lines = res["lines"]
    bad = 0
    want = {}
    for r in expected:
        want[r["id"]] = json.dumps({k: v for k, v in r.items() if k != "io"}, sort_keys=True)
    for l in lines:
        got = json.dumps({k: v for k, v in l.items() if k != "io"}, sort_keys=True)
        if want.get(l.get("id")) != got:
            bad += 1
    if res["ub_reports"] or bad:
        total.viol("C12:miri", "[Miri] %d UB/data-race report(s), %d result(s) differing from the native run: %s" % (res["ub_reports"], bad, res["stderr_tail"][:600]), {"level": "miri"})
    total.counts["miri_seed_executions"] = len(lines)
    return {"seeds": nseeds, "requests_per_seed": len(reqs), "results_observed": len(lines), "ub_or_race_reports": res["ub_reports"], "differing_results": bad, "wall_s": res["wall_s"]}


from ..sanitize import run_miri  # noqa: E402
