"""C17 - every invocation ends in success or a diagnosed error, never a panic.

Exit-status / panic / signal classifier over hostile corpora, on the release binary AND on a binary
built with overflow checks (the property's "arithmetic overflow"). Thorough adds an AddressSanitizer
binary and Miri over the harness for dependency `unsafe` reached by hostile bytes.
"""
import itertools, os, struct
from .. import cli, build, harness
from ..common import rng_for, digest, panic_sig, BUILD
from ..engines import create as E
from ..gen import callsets as G, spectra as GS, vcfgen
from ..oracle import spectrum as O

LEVEL = "exploration"
NEEDS = ["cli", "cli:ovf", "harness", "harness:ovf"]
STATS = ["d-fu-li", "d-tajima", "f2", "f3", "f4", "fst", "king", "pi", "pi-xy", "r0", "r1", "s", "sum", "theta"]
RULE = ("(1) EVERY statistic (14) x EVERY shape with 1-4 axes and lengths 1-4 (340 shapes) plus all 1-2 axis shapes up to length 10, all 9-entry shapes and ten shapes with 2^14 and more entries and a very short axis (3x6001, 3x81x81, ...), zero/positive data; (2) view/fold/create option values at and "
        "beyond their bounds (axes, projection targets 0 / larger / wrong dimensionality / 2^63 / 2^64-1, precision 0/17/65535/65536/10^6, threads; file names and sample lists that are not valid UTF-8, with and without --debug / -vv); "
        "(2b) error exits and log lines with stderr pointing at /dev/full; (2c) successful work whose stdout is a pipe without reader (EPIPE), /dev/full (ENOSPC) or a read-only descriptor (EBADF), outputs from bytes to beyond the pipe buffer; (2d) `create` at every verbosity on inputs of 2^16 .. 2^17+1 records; (3) empty and 1-10 byte inputs and texts cut off after / interrupted by multi-byte UTF-8 characters, to all four subcommands by path and stdin; (4) absurd declared shapes in text and npy headers (0, 2^32, 2^63, "
        "wrapping products, up to 22000 axes); (4b) unparsable npy v3 headers with a multi-byte character at every byte offset 20..230; (4c) library level: genotype records with more or fewer genotypes than samples through the site reader (release and checked harness); (5) contradictory sample lists: hand-written ones plus EVERY list of 1-4 entries over {2 samples} x {label A, label B, no label} (1554 lists, -s and -S) and seeded 5-9 entry lists over 3 samples x 4 labels; (6) hostile bytes: every single-byte substitution {^01, ^80, 00, ff, +1} "
        "at every offset of small vcf / vcf.gz / bgzf bcf / raw bcf / npy / text seed files (deterministic), the same on the uncompressed payload "
        "re-BGZF'd, plus seeded multi-site mutations, splices, digit runs -> huge numbers, truncations. Each run on the release and the "
        "overflow-checked binary. Verdict per run: exit 0, or exit != 0 with a diagnostic; refuting: exit 101 / 'panicked at', death by signal, "
        "non-zero exit with empty stderr, reproducible hang. Non-trivial: a run that did not exit 0 (i.e. the error path was exercised) or a "
        "degenerate-shape statistic; distinct = digest(argv, input).")
ASSUMPTIONS = ["findings are keyed by (subcommand, normalised panic site); dependency sites are stable because Cargo.lock pins them",
               "--threads up to the tool's own limit (1024) is assumed to be spawnable on the machine running the check",
               "population counts between 20 and 25 are not generated: the 3^k-cell spectrum may or may not be allocatable on a given machine"]
FLOORS = {"quick": {"evaluations": 30000, "distinct_nontrivial": 10000, "counts": {"stat_grid": 11000, "option_bounds": 300, "short_inputs": 300, "absurd_shapes": 150, "sample_lists": 60, "sample_lists_enumerated": 1900, "stdout_gone_runs": 500, "many_records_runs": 30, "npy_header_non_ascii": 1000, "ragged_record_requests": 200, "hostile_bytes": 15000}},
          "thorough": {"evaluations": 300000, "distinct_nontrivial": 150000, "counts": {"stat_grid": 11000, "hostile_bytes": 300000}}}
NSHARD = 32
KINDS = ["release", "ovf"]


def plan(tier, seed):
    q = tier == "quick"
    return [{"name": "s%d" % i, "i": i, "multi": 60 if q else 5000} for i in range(NSHARD)]


def classify(S, r, sub, cls, inp, kind, count, extra=None):
    """The C17 verdict for one run."""
    S.count(count)
    wit = {"level": "C", "binary": kind, "argv": r.argv, "input_b64": E.b64(inp[:100000]) if inp is not None else None, "run": r.brief()}
    if extra:
        wit.update(extra)
    tag = "%s %s [%s binary]" % (sub, cls, kind)
    if r.timed_out:
        S.inconc("timeout (to be retried alone): %s %r" % (tag, r.argv))
        return "timeout"
    if r.panicked:
        site = panic_sig(r.err)
        if site.startswith("library/") and inp is not None:
            # the panic location is inside std (e.g. a str slice): name the first caller outside std so that findings stay specific
            site += "@" + first_foreign_frame(r, inp, kind)
        S.viol("C17:panic:%s:%s:%s" % (sub, cls.split(" ")[0], site), "[%s] panicked: %s" % (tag, r.err.decode("utf-8", "replace").strip()[:300]), wit)
        return "panic"
    if r.signal:
        S.viol("C17:signal:%s:%d" % (sub, r.signal), "[%s] killed by signal %d: %r" % (tag, r.signal, r.err[:200]), wit)
        return "signal"
    if r.rc != 0 and not r.err.strip():
        S.viol("C17:silent-failure:%s" % sub, "[%s] exit %d without a diagnostic on stderr" % (tag, r.rc), wit)
        return "silent"
    return "ok" if r.rc == 0 else "error"


MEM_LIMIT = 2 << 30


def first_foreign_frame(r, inp, kind):
    """Re-run a panicking invocation with RUST_BACKTRACE=1 and return the first frame that is not std/core/alloc."""
    import re
    rr = cli.sfs(r.argv, stdin=inp if r.stdin is not None else None, kind=kind, env={"RUST_BACKTRACE": "1"}, timeout=60)
    for line in rr.err.decode("utf-8", "replace").splitlines():
        m = re.match(r"\s+\d+: (.+)$", line)
        if m:
            name = m.group(1).strip().lstrip("<")
            if not name.startswith(("core::", "std::", "alloc::", "__rustc", "rust_begin_unwind", "&", "core::str", "<core", "<alloc", "<std")):
                return name.split(" as ")[0][:160]
    return "unknown-caller"


def _exec(args, inp, kind, via, timeout, mem_limit=MEM_LIMIT):
    if via == "path":
        return cli.sfs(args + [E.tmpfile(inp if inp is not None else b"")], kind=kind, timeout=timeout, mem_limit=mem_limit)
    return cli.sfs(args, stdin=inp, kind=kind, timeout=timeout, mem_limit=mem_limit)


def alloc_limited(r):
    return r.signal == 6 and b"memory allocation of" in r.err


def run_case(S, args, inp, sub, cls, count, via="stdin"):
    for kind in KINDS:
        r = _exec(args, inp, kind, via, 30)
        if alloc_limited(r):
            # A corrupted length field made the program ask for more than the workload's 2 GiB address-space cap. That is
            # not a verdict on the tree: thorough re-runs the case alone without the cap, quick only counts it.
            S.count("alloc_capped_runs")
            # thorough re-runs a bounded number of them alone and uncapped (each takes seconds and they are serialised)
            S.params["_uncapped_budget"] = S.params.get("_uncapped_budget", 6 if S.tier == "thorough" else 0)
            if S.params["_uncapped_budget"] <= 0:
                S.case(key=digest([args, (inp or b"").hex()[:4000], kind, "capped"]), nontrivial=False)
                continue
            S.params["_uncapped_budget"] -= 1
            S.count("alloc_capped_runs_repeated_uncapped")
            r = type(r)(r.argv, None, b"", b"", timed_out=True)
        if r.timed_out:
            # A corrupted length field can make a dependency allocate gigabytes; under 16-way load that is slow.
            # Retry alone (serialised across all shards) with a generous limit: only a reproducible hang counts.
            import fcntl
            S.count("timeouts_retried_alone")
            with open(os.path.join(BUILD, "c17-retry.lock"), "w") as lk:
                fcntl.flock(lk, fcntl.LOCK_EX)
                r = _exec(args, inp, kind, via, 120, mem_limit=None)
                fcntl.flock(lk, fcntl.LOCK_UN)
            if r.timed_out:
                S.viol("C17:hang:%s:%s" % (sub, cls.split(" ")[0]), "[%s %s, %s binary] did not terminate within 120 s running alone (input of %d bytes)" % (
                    sub, cls, kind, len(inp or b"")), {"level": "C", "binary": kind, "argv": r.argv, "input_b64": E.b64((inp or b"")[:100000])})
                S.case(key=digest([args, (inp or b"").hex()[:4000], kind]), nontrivial=True)
                continue
        v = classify(S, r, sub, cls, inp, kind, count)
        S.case(key=digest([args, (inp or b"").hex()[:4000], len(inp or b""), kind]), nontrivial=v != "ok" or cls.startswith("stat-grid"))
    return r


# ---------------------------------------------------------------- (1) statistics grid
def part_stat_grid(S, p):
    shapes = list(GS.all_shapes(4, 4))
    # beyond the stated grid: every 1- and 2-axis shape with lengths up to 10 and every shape with 9 entries (the kinship
    # statistics are defined for 3x3 only), so that a guard that tests the element count instead of the shape is seen
    shapes += [s_ for s_ in GS.all_shapes(2, 10) if max(s_) > 4]
    shapes += [[1, 1, 9], [9, 1, 1], [1, 9, 1], [3, 1, 3], [1, 3, 3], [3, 3, 1], [1, 3, 1, 3], [3, 3, 1, 1], [2, 2, 2, 2, 2], [27], [81]]
    # far beyond it: a few spectra with 2^14 and more entries and a very short first or last axis (work split by rows, columns, blocks)
    shapes += [[3, 6001], [2, 9001], [6001, 3], [3, 81, 81], [81, 81, 3], [3, 19, 19, 19], [19, 19, 19, 3], [20001], [129, 131], [2, 2, 5000]]
    mine = [s for k, s in enumerate(shapes) if k % NSHARD == p["i"]]
    for shape in mine:
        rng = rng_for(0, "c17-grid", str(shape))
        n = O.prod(shape)
        for st in STATS:
            data = [float(rng.randrange(0, 9)) for _ in range(n)] if (len(st) + n) % 3 else [0.0] * n
            run_case(S, ["stat", "-s", st], GS.text_spectrum(shape, data, 0), "stat", "stat-grid %s shape %s" % (st, "x".join(map(str, shape))), "stat_grid")
    if p["i"] == 0:
        S.sample({"class": "stat-grid", "example": ["stat", "-s", "d-fu-li"], "input": "#SHAPE=<1>\\n0\\n", "shapes": len(shapes), "statistics": len(STATS)})


# ---------------------------------------------------------------- (2) option bounds
def part_options(S, p):
    rng = rng_for(S.seed, "c17", p["name"], "opt")
    shape = GS.random_shape(rng, 1, 3, 4)
    inp = GS.text_spectrum(shape, GS.values(rng, O.prod(shape), "int"), 0)
    d = len(shape)
    big = ["0", "1", str(d), str(d + 1), "4294967296", "9223372036854775807", "9223372036854775808", "18446744073709551615", "18446744073709551616", "-1", "", "0,0", "a"]
    cases = []
    for v in big:
        cases.append(["view", "-m", v])
        cases.append(["view", "-M", v])
        cases.append(["view", "--project-shape", ",".join([v] * d)])
        cases.append(["view", "-p", ",".join([v] * d)])
        cases.append(["view", "--project-shape", v])
    for prec in ("0", "17", "300", "65535", "65536", "1000000", "18446744073709551615", "-1"):
        cases.append(["view", "--precision", prec])
        cases.append(["fold", "-p", prec])
        cases.append(["stat", "-s", "sum", "-p", prec])
        cases.append(["stat", "-s", "sum,s", "-p", "3," + prec])
    cases += [["fold", "--fill", "nan"], ["fold", "--fill", "bogus"], ["stat", "-s", "sum", "-d", ""], ["stat", "-s", "sum", "-d", "ab"], ["stat", "-s", "sum,s", "-p", "1,2,3"],
              ["stat", "-s", "nope"], ["view", "-O", "npy", "--precision", "65535"], ["view", "-o", "/nonexistent-dir/x"], ["view", "-n", "--mask-monomorphic"]]
    # arguments that are not valid UTF-8 (file names in a legacy encoding), with and without the flags that echo the command line
    latin = b"caf\xe9-\xff.sfs"
    lpath = os.path.join(os.path.dirname(E.tmpfile(b"", ".x")).encode(), latin)
    with open(lpath, "wb") as f_:
        f_.write(inp)
    for pre in ([], ["--debug"], ["-vv"], ["-q"]):
        cases.append(pre + ["view", lpath])
        cases.append(pre + ["view", b"/nonexistent/" + latin])
        cases.append(pre + ["view", "-o", lpath + b".out"])
        cases.append(pre + ["fold", lpath])
        cases.append(pre + ["stat", "-s", "sum", lpath])
        cases.append(pre + ["create", "-S", lpath])
        cases.append(pre + ["create", "-s", b"s\xe9=p\xff"])
    mine = [c for k, c in enumerate(cases) if k % 4 == p["i"] % 4]
    for c in mine:
        sub_ = next((x for x in c if x in ("view", "fold", "stat", "create")), "view")
        run_case(S, c, inp, sub_, "option-bounds %s" % (c[1] if len(c) > 1 and isinstance(c[1], str) else "bytes"), "option_bounds")
    # every short axis list (duplicates adjacent or not, out-of-range entries) on 4- and 5-axis spectra
    for shape4 in ([2, 2, 2, 2], [2, 1, 3, 2, 2]):
        inp4 = GS.text_spectrum(shape4, [float(x) for x in range(O.prod(shape4))], 0)
        d4 = len(shape4)
        seqs = [q for k in (1, 2, 3, 4) for q in itertools.product(range(d4 + 1), repeat=k)]
        for k, q in enumerate(seqs):
            if k % NSHARD == p["i"] and (len(q) < 4 or k % 5 == 0):
                run_case(S, ["view", "-m" if k % 2 else "-M", ",".join(map(str, q))], inp4, "view", "option-bounds axis-list", "option_bounds")
    # option interaction: an axis list (valid, repeated, out of range, longer than the number of axes) TOGETHER with a projection
    for shp in ([3], [2, 3], [2, 2, 3]):
        inpx = GS.text_spectrum(shp, [float(x) for x in range(O.prod(shp))], 0)
        dd = len(shp)
        seqs = [q for k in range(1, dd + 3) for q in itertools.product(range(dd + 1), repeat=k)]
        for k, q in enumerate(seqs):
            if k % NSHARD == p["i"] and (len(q) <= 3 or k % 7 == 0):
                proj = ["--project-shape", ",".join(["1"] * max(1, dd - len(set(q))))] if k % 2 else ["-p", ",".join(["0"] * max(1, dd - len(q)))]
                run_case(S, ["view", "-m", ",".join(map(str, q))] + proj, inpx, "view", "option-bounds axis-list+projection", "option_bounds")
    # the global counting flags, any number of times, before and after the subcommand
    flagsets = [["-q"], ["-qq"], ["-qqq"], ["-qqqq"], ["-q", "-q", "-q"], ["--quiet", "--quiet", "--quiet"], ["-qqqqqqqq"], ["-v"], ["-vvv"], ["-vvvvvvvv"],
                ["--verbose"] * 5, ["-q", "-v"], ["-qqq", "--debug"], ["-vvvv", "--debug"]]
    for k, fl in enumerate(flagsets):
        if k % 4 == p["i"] % 4:
            for sub, data_ in ((["view"], inp), (["stat", "-s", "sum"], inp), (["fold"], inp)):
                run_case(S, fl + sub if k % 2 else sub + fl, data_, sub[0], "option-bounds global-flags", "option_bounds")
    # create options
    cs = G.random_callset(rng, nsamples=3, nrecords=4, complete_only=True, extras=False)
    vcf = cs.to_vcf()
    for c in (["-p", "9223372036854775808"], ["-p", "18446744073709551615"], ["--project-shape", "0"], ["--project-shape", "1,1"], ["-t", "0"], ["-t", "1024"],
              ["-qqq"], ["-q", "-q", "-q", "-q"], ["-vvvvv"], ["--project-shape", "18446744073709551615"], ["-t", "1025"], ["-t", "100000"], ["-t", "18446744073709551615"], ["-t", "1024"], ["--precision", "65536", "-p", "1"], ["-p", "1", "--precision", "65535"], ["--strict", "-p", "1"]):
        if (len(c[-1]) + p["i"]) % 2:
            run_case(S, ["create"] + c, vcf, "create", "option-bounds %s" % c[0], "option_bounds")


# ---------------------------------------------------------------- (2b) unwritable stderr
def part_stderr_full(S, p):
    """Error exits and log lines with stderr pointing at /dev/full: the diagnostic cannot be delivered, but the process must
    still end with an ordinary exit status - not a panic (101) and not a signal."""
    rng = rng_for(S.seed, "c17", p["name"], "stderrfull")
    cs = G.random_callset(rng, nsamples=3, nrecords=6, p_missing=0.4, p_multi=0, extras=False)
    vcf = cs.to_vcf()
    cases = [(["view"], b"#SHAPE=<3>\n1 2\n"), (["fold"], b"#SHA"), (["stat", "-s", "f2"], b"#SHAPE=<3>\n1 2 3\n"), (["create", "-v"], vcf), (["create", "-vv", "-t", "2"], vcfgen.bgzf(vcf)),
             (["create", "--strict"], vcf), (["create", "-s", "nobody"], vcf), (["view", "--precision", "99999"], b"#SHAPE=<1>\n1\n"), (["create"], b"garbage"),
             (["view", "-m", "7"], b"#SHAPE=<2/2>\n1 2 3 4\n"), (["create", "--debug"], vcf)]
    mine = [c for k, c in enumerate(cases) if k % 4 == p["i"] % 4]
    for args, inp in mine:
        for kind in KINDS:
            r = cli.sfs(args, stdin=inp, kind=kind, timeout=30, stderr_path="/dev/full")
            S.count("stderr_full_runs")
            wit = {"level": "C", "binary": kind, "argv": r.argv, "input_b64": E.b64(inp), "stderr": "/dev/full", "rc": r.rc}
            if r.rc == 101:
                S.viol("C17:panic:%s:stderr-full:exit-101" % args[0], "[%s with stderr -> /dev/full, %s binary] exit 101: a failed write to stderr became a panic" % (args, kind), wit)
            elif r.signal:
                S.viol("C17:signal:%s:%d" % (args[0], r.signal), "[%s with stderr -> /dev/full, %s binary] killed by signal %d" % (args, kind, r.signal), wit)
            else:
                # success or failure is decided by the work, not by whether the diagnostic could be delivered
                rn = cli.sfs(args, stdin=inp, kind=kind, timeout=30)
                if rn.rc is not None and r.rc != rn.rc:
                    S.viol("C17:status-depends-on-stderr:%s" % args[0], "[%s, %s binary] exit status %s with stderr -> /dev/full but %s with a readable stderr (%r)" % (
                        args, kind, r.rc, rn.rc, rn.err[:120]), wit)
            S.case(key=digest([args, inp.hex()[:200], kind, "stderrfull"]), nontrivial=r.rc != 0)


def part_stdout_gone(S, p):
    """Successful work whose output cannot be delivered: stdout is a pipe whose reader has gone away (EPIPE, `sfs view x | head -c 1`),
    a full device (ENOSPC) or a descriptor that is not writable (EBADF); outputs from a few bytes to beyond the pipe buffer. The
    process must end with status 0 or with a non-zero status AND a diagnostic - not silently, not by a panic or a signal."""
    rng = rng_for(S.seed, "c17", p["name"], "stdoutgone")
    cs = G.random_callset(rng, nsamples=3, nrecords=6, p_missing=0.1, p_multi=0, extras=False)
    vcf = cs.to_vcf()
    n_big = 20000
    big = ("#SHAPE=<%d>\n%s\n" % (n_big, " ".join(str(k % 97) for k in range(n_big)))).encode()
    small = b"#SHAPE=<3/3>\n0 1 2 3 4 5 6 7 8\n"
    cases = [(["create"], vcf), (["create", "-p", "1"], vcf), (["view"], small), (["view", "-O", "npy"], small), (["view", "--precision", "12"], big), (["view", "-O", "npy"], big),
             (["fold"], small), (["fold", "--precision", "9"], big), (["stat", "-s", "sum"], small), (["stat", "-s", "f2,pi-xy", "-H"], small), (["stat", "-s", "s,theta,pi", "-H"], big)]
    wheres = ["closed-pipe", "/dev/full", "read-only-fd"]
    for k, (args, inp) in enumerate(cases):
        if k % 2 != p["i"] % 2:
            continue
        for where in wheres:
            for kind in KINDS:
                r = cli.sfs_stdout_to(args, inp, where, kind=kind)
                S.observe("stdout_gone", "%s/%s" % (args[0], where))
                S.observe("stdout_gone_outcome", "%s: exit %s%s" % (where, r.rc, " with diagnostic" if r.err.strip() else ""))
                res = classify(S, r, args[0], "stdout-gone " + where, None, kind, "stdout_gone_runs", extra={"stdout_to": where, "input_b64": E.b64(inp[:100000])})
                S.case(key=digest([args, where, kind, len(inp)]), nontrivial=res == "error")


def part_many_records(S, p):
    """Inputs with more than 2^16 / 2^17 records (a chromosome arm of variants), at every verbosity: progress counters, rates and
    per-site logging must survive them - on a fast machine (everything in well under a second) as on a slow one."""
    rng = rng_for(S.seed, "c17", p["name"], "many")
    nrec = rng.choice([65536, 65537, 70000, 131073])
    head = "##fileformat=VCFv4.3\n##contig=<ID=c1,length=100000000>\n##FORMAT=<ID=GT,Number=1,Type=String,Description=\"g\">\n#CHROM\tPOS\tID\tREF\tALT\tQUAL\tFILTER\tINFO\tFORMAT\ta\tb\n"
    gts = ["0/0\t0/1", "0|1\t1|1", "./.\t0/0", "0/0\t0/0", "1/1\t0/1"]
    body = "".join("c1\t%d\t.\tA\tC\t.\t.\t.\tGT\t%s\n" % (k + 1, gts[(k * 7) % 5 if k % 1000 else 2]) for k in range(nrec))
    vcf = (head + body).encode()
    gz = vcfgen.bgzf(vcf, list(range(60000, len(vcf), 60000)))
    for args, inp in ((["create", "-v"], vcf), (["create", "-vv", "-t", "2"], gz), (["create", "-q"], vcf), (["create", "-v", "-p", "1"], gz), (["create", "--debug"], vcf)):
        for kind in KINDS:
            r = cli.sfs(args, stdin=inp, kind=kind, timeout=120)
            S.observe("many_records", "%d records: %s" % (nrec, " ".join(args)))
            res = classify(S, r, "create", "many-records %d" % nrec, None, kind, "many_records_runs", extra={"input": "VCF of %d records, 2 samples (see part_many_records)" % nrec})
            if res == "ok" and not r.out.startswith(b"#SHAPE=<"):
                S.viol("C17:many-records:no-output", "[%s on %d records, %s binary] exit 0 without a spectrum" % (args, nrec, kind), {"level": "C", "argv": r.argv, "run": r.brief()})
            S.case(key=digest([args, nrec, kind]), nontrivial=True)


# ---------------------------------------------------------------- (3) short inputs
def part_short(S, p):
    rng = rng_for(S.seed, "c17", p["name"], "short")
    seeds = [b"", b"#", b"#S", b"#SH", b"#SHAP", b"#SHAPE", b"#SHAPE=", b"#SHAPE=<", b"\x93", b"\x93NUMP", b"\x93NUMPY", b"\x93NUMPY\x01", b"\x93NUMPY\x01\x00",
             b"\x93NUMPY\x01\x00\x00", b"\x1f", b"\x1f\x8b", b"\x1f\x8b\x08", b"B", b"BC", b"BCF", b"BCF\x02", b"BCF\x02\x02", b"BCF\x02\x02\x00\x00\x00\x00", b"\n", b"##", b"##fileformat",
             b"\x00", b"\xff" * 7, b"1 2 3\n", bytes(rng.randrange(256) for _ in range(rng.randint(1, 10)))]
    # text that is valid UTF-8 but ends (or is interrupted) by multi-byte characters, with and without line terminators
    for tail in ("é", "€", "𝄞", "é\n", "\u00a0", "１２"):
        for head in ("#SHAPE=<3>", "#SHAPE=<3>\n1 2 3", "#SHAPE=<3", "#SHAPE=<2/2>\n1 2 3 ", "#SHAPE", "##fileformat=VCFv4.3\n#CHROM", "##fileformat=VCFv4.3"):
            seeds.append((head + tail).encode("utf-8"))
    mine = [s for k, s in enumerate(seeds) if k % 8 == p["i"] % 8]
    for s in mine:
        for sub in (["create"], ["view"], ["fold"], ["stat", "-s", "sum"]):
            for via in ("stdin", "path"):
                run_case(S, sub, s, sub[0], "short-input", "short_inputs", via=via)


# ---------------------------------------------------------------- (4) absurd shapes
def part_ragged_records(S, p):
    """Library level: a genotype reader that hands the site reader MORE or FEWER genotypes than it announced samples (any implementation of
    the reader trait may; so did BCF records before sfs checked their sample count). No panic, on the release and on the checked harness."""
    rng = rng_for(S.seed, "c17", p["name"], "ragged")
    reqs = []
    for _ in range(4):
        ns = rng.randint(1, 6)
        samples = ["s%d" % j for j in range(ns)]
        listed = rng.sample(samples, rng.randint(1, ns))
        smap = [(s_, rng.choice(["A", "B", None])) for s_ in listed]
        recs = []
        for _ in range(6):
            ln = rng.choice([ns, ns + 1, ns + 3, 2 * ns + 1, max(0, ns - 1), 0, ns + 40])
            recs.append("".join(str(rng.choice([0, 1, 2, 3, 4])) for _ in range(ln)))
        proj = None
        if rng.random() < 0.4:
            sizes = G.pop_sizes(smap)
            proj = [rng.randint(1, 2 * z + 1) for z in sizes]
        reqs.append({"op": "site_hist", "samples": samples, "map": E.map_json(smap), "project": proj, "records": recs, "fresh": False, "after_error": "continue"})
    for kind in KINDS:
        for q, r in zip(reqs, harness.run_all([dict(q) for q in reqs], kind=kind, _audit=False)):
            S.count("ragged_record_requests")
            if "panic" in r or r.get("died") or r.get("thread_panic"):
                S.viol("C17:panic:library:ragged-records:%s" % panic_sig(str(r.get("panic") or r.get("thread_panic") or r.get("stderr", ""))),
                       "[L site reader, %s harness, records of %r genotypes for %d samples] %s" % (kind, [len(x) for x in q["records"]], len(q["samples"]), str(r)[:300]),
                       {"level": "L", "binary": kind, "request": q})
            S.case(key=digest([q["records"], q["map"], kind, "ragged"]), nontrivial=True)


def part_headers_non_ascii(S, p):
    """npy files (format version 3: UTF-8 header) whose header dict cannot be parsed but is valid UTF-8 - a structured dtype with non-ASCII
    field names, say - with a 2-, 3- or 4-byte character at EVERY byte offset from 20 to 230: an error message that quotes, shortens or
    underlines the header must cut it at a character boundary."""
    from ..oracle import npyfmt
    for off in range(20, 231):
        if off % NSHARD != p["i"]:
            continue
        for ch in ("\u00e9", "\u20ac", "\U0001d11e"):
            head = "{'descr': [('"
            body = head + "a" * max(0, off - len(head)) + ch + "z" * 40 + "', '<f8')], 'fortran_order': False, 'shape': (2,), }"
            data = npyfmt.build(body, struct.pack("<2d", 1.0, 2.0), (3, 0))
            sub = [["view"], ["fold"], ["stat", "-s", "sum"]][(off + len(ch.encode())) % 3]
            run_case(S, sub, data, sub[0], "npy-header non-ascii at byte %d" % off, "npy_header_non_ascii", via="stdin" if off % 2 else "path")


def part_absurd(S, p):
    rng = rng_for(S.seed, "c17", p["name"], "absurd")
    nums = ["0", "1", "4294967296", "9223372036854775807", "9223372036854775808", "18446744073709551615", "18446744073709551616", "99999999999999999999999999", "-3", "2147483648"]
    texts = []
    for a in nums:
        texts.append(("#SHAPE=<%s>\n\n" % a).encode())
        texts.append(("#SHAPE=<%s>\n1 2 3\n" % a).encode())
        for b in ("0", "2", "4294967296", "9223372036854775808"):
            texts.append(("#SHAPE=<%s/%s>\n\n" % (a, b)).encode())
            texts.append(("#SHAPE=<%s/%s>\n1\n" % (a, b)).encode())
            texts.append(("#SHAPE=<%s/%s/%s>\n1 2\n" % (b, a, b)).encode())
    for a in nums[2:7]:
        texts.append(("#SHAPE=<0/%s/%s>\n\n" % (a, a)).encode())
        texts.append(("#SHAPE=<%s/0/%s/3>\n\n" % (a, a)).encode())
        texts.append(("#SHAPE=<%s/%s/0>\n" % (a, a)).encode())
    texts += [b"#SHAPE=<>\n1\n", b"#SHAPE=</>\n1\n", b"#SHAPE=<1//1>\n1\n", b"#SHAPE\n1\n", b"#SHAPE=<3>", b"#SHAPE=<3>\n1 2 x\n", b"#SHAPE=<3>\n1 2 1e999\n", b"#SHAPE=<3>\nnan inf -inf\n",
              ("#SHAPE=<%s>\n1\n" % "/".join(["1"] * 64)).encode(), ("#SHAPE=<%s>\n%s\n" % ("/".join(["2"] * 16), " ".join(["1"] * 65536))).encode(),
              ("#SHAPE=<%s>\n\n" % "/".join(["4294967296"] * 2)).encode(), ("#SHAPE=<%s>\n\n" % "/".join(["65536"] * 4)).encode(),
              ("#SHAPE=<%s>\n1\n" % "/".join(["1"] * 1000)).encode(), ("#SHAPE=<%s>\n1\n" % "/".join(["1"] * 22000)).encode(),
              ("#SHAPE=<%s>\n1 2\n" % "/".join(["1"] * 21999 + ["2"])).encode()]
    npys = []
    from ..oracle import npyfmt
    for shp in ("()", "(0,)", "(0, 0)", "(18446744073709551615,)", "(18446744073709551616,)", "(4294967296, 4294967296)", "(2305843009213693952,)", "(9223372036854775808, 2)",
                "(1,)*64", "(3, -1)", "(1.5,)", "3", "[3]", "(3,) + (1,)"):
        lit = shp if not shp.endswith("*64") else "(%s,)" % ", ".join(["1"] * 64)
        for descr in ("<f8", "<i1", ">u8"):
            hdr = "{'descr': '%s', 'fortran_order': False, 'shape': %s, }" % (descr, lit)
            npys.append(npyfmt.build(hdr, b"\0" * 24))
            npys.append(npyfmt.build(hdr, b""))
    npys.append(b"\x93NUMPY\x01\x00\xff\xff" + b"{" * 100)
    npys.append(b"\x93NUMPY\x02\x00\xff\xff\xff\xff{'descr': '<f8'}")
    npys.append(b"\x93NUMPY\x02\x00\xff\xff\xff\x7f")
    npys.append(b"\x93NUMPY\x09\x00\x10\x00")
    allc = [("text", t) for t in texts] + [("npy", n) for n in npys]
    mine = [c for k, c in enumerate(allc) if k % 8 == p["i"] % 8]
    subs = [["view"], ["fold"], ["stat", "-s", "sum,s"], ["view", "-m", "0"], ["view", "--mask-monomorphic", "-n"], ["view", "-O", "npy"], ["stat", "-s", "pi,theta,d-tajima,d-fu-li"],
            ["view", "--project-shape", "1"], ["stat", "-s", "f2,fst,pi-xy,king"]]
    for k, (fmt, inp) in enumerate(mine):
        for sub in subs[(k + p["i"]) % 3::3]:
            run_case(S, sub, inp, sub[0], "absurd-shape %s" % fmt, "absurd_shapes")


# ---------------------------------------------------------------- (5) sample lists
def part_samples(S, p):
    rng = rng_for(S.seed, "c17", p["name"], "samples")
    cs = G.random_callset(rng, nsamples=4, nrecords=5, complete_only=True, extras=False)
    s = cs.samples
    vcf = cs.to_vcf()
    lists = ["%s=A,%s=B,%s=B" % (s[0], s[1], s[0]), "%s=A,%s=A,%s=B" % (s[0], s[1], s[0]), "%s,%s" % (s[0], s[0]), "%s=A,%s" % (s[0], s[0]), "", ",", "=", "=A", "%s=" % s[0],
             "%s==A" % s[0], "%s=A=B" % s[0], "nobody", "%s,nobody=A" % s[0], ",".join(s * 3), "%s=A,%s=B,%s=C,%s=D,%s=E" % (s[0], s[1], s[2], s[3], s[0]),
             "%s=é,%s=é" % (s[0], s[1]), " %s" % s[0], "%s=A,%s=B,%s=A,%s=B,%s=C,%s=C" % (s[0], s[0], s[1], s[1], s[0], s[1])]
    mine = [l for k, l in enumerate(lists) if k % 4 == p["i"] % 4]
    for l in mine:
        run_case(S, ["create", "-s", l], vcf, "create", "sample-list", "sample_lists")
        run_case(S, ["create", "-s", l, "-p", "1"], vcf, "create", "sample-list", "sample_lists")
        f = E.tmpfile(l.replace(",", "\n").replace("=", "\t").encode() + b"\n", ".samples")
        run_case(S, ["create", "-S", f], vcf, "create", "sample-list", "sample_lists")
    # EVERY list of 1-4 entries over {two samples} x {label A, label B, no label} (repeats, contradictions, emptied populations in
    # every order; 1554 lists split over the shards, -s and -S alternating), and seeded longer lists over three samples
    import itertools
    entries = [(nm, lab) for nm in s[:2] for lab in ("A", "B", None)]
    allists = [l_ for n_ in (1, 2, 3, 4) for l_ in itertools.product(entries, repeat=n_)]
    for k, l_ in enumerate(allists):
        if k % NSHARD != p["i"]:
            continue
        if (k // NSHARD) % 2:
            run_case(S, ["create", "-s", ",".join(nm if lab is None else "%s=%s" % (nm, lab) for nm, lab in l_)], vcf, "create", "sample-list enumerated", "sample_lists_enumerated")
        else:
            f = E.tmpfile("".join((nm if lab is None else "%s\t%s" % (nm, lab)) + "\n" for nm, lab in l_).encode(), ".samples")
            run_case(S, ["create", "-S", f] + (["-p", "1"] if k % 3 == 0 else []), vcf, "create", "sample-list enumerated", "sample_lists_enumerated")
    entries3 = [(nm, lab) for nm in s[:3] for lab in ("A", "B", "C", None)]
    for _ in range(12):
        l_ = [rng.choice(entries3) for _ in range(rng.randint(5, 9))]
        run_case(S, ["create", "-s", ",".join(nm if lab is None else "%s=%s" % (nm, lab) for nm, lab in l_)], vcf, "create", "sample-list enumerated", "sample_lists_enumerated")
    # dozens of populations: the spectrum has 3^k cells and cannot be allocated
    big = G.random_callset(rng, nsamples=46, nrecords=2, complete_only=True, extras=False)
    for k in (26, 30, 40, 41, 45):
        if (k + p["i"]) % 4 == 0:
            run_case(S, ["create", "-s", ",".join("%s=p%d" % (nm, j) for j, nm in enumerate(big.samples[:k]))], big.to_vcf(), "create", "sample-list many-populations", "sample_lists")
            run_case(S, ["create", "-p", ",".join(["1"] * k), "-s", ",".join("%s=p%d" % (nm, j) for j, nm in enumerate(big.samples[:k]))], big.to_vcf(), "create",
                     "sample-list many-populations", "sample_lists")
    for content in (b"", b"\n", b"\t\n", b"\tA\n", b"%s\tA\tB\n" % s[0].encode(), b"\xff\xfe\n", b"%s\n%s\tA\n\n%s\tB\n" % (s[0].encode(), s[1].encode(), s[0].encode())):
        run_case(S, ["create", "-S", E.tmpfile(content, ".samples")], vcf, "create", "sample-list", "sample_lists")
    run_case(S, ["create", "-S", "/nonexistent/samples"], vcf, "create", "sample-list", "sample_lists")


# ---------------------------------------------------------------- (6) hostile bytes
def seed_files():
    """Small deterministic seed files of every format (seed independent)."""
    rng = rng_for(0, "c17-seedfiles")
    cs = G.random_callset(rng, nsamples=3, nrecords=3, p_missing=0.2, p_multi=0.1, extras=True)
    cs2 = G.random_callset(rng, nsamples=2, nrecords=2, p_missing=0.0, p_multi=0.0, extras=False)
    vcf = cs2.to_vcf()
    head, brecs = cs2.bcf_records()
    files = {"vcf": ("create", cs.to_vcf()), "vcf-min": ("create", vcf), "rawbcf": ("create", cs2.to_bcf()), "rawbcf-extras": ("create", cs.to_bcf()),
             "vcf.gz": ("create", vcfgen.bgzf(vcf, vcfgen.record_cuts_vcf(vcf)[::2])), "bcf": ("create", vcfgen.bgzf(head + b"".join(brecs), [len(head)])),
             "npy": ("spectrum", GS.npy_bytes([2, 3], [1, 2, 3, 4, 5, 6])), "npy-v2-i2": ("spectrum", GS.npy_bytes([4], [1, 2, 3, 4], ">i2", (2, 0))),
             "text": ("spectrum", b"#SHAPE=<2/3>\n1.5 2 3 4 5 6.25\n")}
    payloads = {"vcf.gz": vcf, "bcf": head + b"".join(brecs)}
    return files, payloads


SUBST = [lambda b: b ^ 0x01, lambda b: b ^ 0x80, lambda b: 0x00, lambda b: 0xFF, lambda b: (b + 1) & 0xFF]


def part_hostile(S, p):
    files, payloads = seed_files()
    spectrum_subs = [["view"], ["stat", "-s", "sum,s"], ["fold"]]
    jobs = []
    for name, (kind, data) in files.items():
        for off in range(len(data)):
            for si, f in enumerate(SUBST):
                nb = f(data[off])
                if nb == data[off]:
                    continue
                jobs.append((name, kind, "single-byte", data[:off] + bytes([nb]) + data[off + 1:], off * 5 + si))
    for name, payload in payloads.items():
        for off in range(len(payload)):
            for si, f in enumerate(SUBST[:3]):
                nb = f(payload[off])
                if nb == payload[off]:
                    continue
                jobs.append((name + "-payload", "create", "single-byte-rebgzf", vcfgen.bgzf(payload[:off] + bytes([nb]) + payload[off + 1:], [len(payload) // 2]), off * 3 + si))
    mine = [j for k, j in enumerate(jobs) if k % NSHARD == p["i"]]
    for name, kind, cls, data, k in mine:
        args = ["create", "-t", "2"] if kind == "create" and k % 4 == 0 else (["create"] if kind == "create" else spectrum_subs[k % 3])
        run_case(S, args, data, args[0], "%s %s" % (cls, name), "hostile_bytes")
        S.count("hostile_%s" % name)
    if p["i"] == 0:
        S.sample({"class": "hostile-bytes", "seed_files": {n: len(d) for n, (_, d) in files.items()}, "substitutions_per_offset": 5, "jobs_total": len(jobs)})
    # seeded multi-site mutations, splices, huge numbers, truncations
    names = list(files)
    for i in range(p["multi"]):
        rng = rng_for(S.seed, "c17", p["name"], "multi", i)
        name = rng.choice(names)
        kind, data = files[name]
        b = bytearray(data)
        how = rng.choice(["multi", "splice", "huge", "trunc", "dup", "payload", "utf8"])
        if how == "payload" and name in payloads:
            pl = bytearray(payloads[name])
            for _ in range(rng.randint(1, 6)):
                pl[rng.randrange(len(pl))] = rng.randrange(256)
            b = bytearray(vcfgen.bgzf(bytes(pl), [rng.randrange(1, len(pl))]))
        elif how == "multi" or how == "payload":
            for _ in range(rng.randint(2, 8)):
                b[rng.randrange(len(b))] = rng.randrange(256)
        elif how == "splice":
            other = files[rng.choice(names)][1]
            a, c = rng.randrange(len(b)), rng.randrange(len(other))
            b = b[:a] + other[c:c + rng.randint(1, 200)] + b[a + rng.randint(0, 50):]
        elif how == "huge":
            import re
            digits = [m for m in re.finditer(rb"[0-9]+", bytes(b))]
            if digits:
                m = rng.choice(digits)
                b = b[:m.start()] + rng.choice([b"99999999999999999999", b"18446744073709551616", b"4294967296", b"-1", b"1e400", b"0" * 50 + b"7"]) + b[m.end():]
        elif how == "trunc":
            b = b[:rng.randrange(len(b))]
        elif how == "utf8":
            ch = rng.choice(["é", "€", "𝄞", "\u2028", "１"]).encode("utf-8")
            a = rng.choice([len(b), rng.randrange(len(b) + 1)])
            b = b[:a] + ch * rng.randint(1, 3) + (b[a:] if rng.random() < 0.5 else b"")
        else:
            a = rng.randrange(len(b))
            b = b[:a] + b[a:a + rng.randint(1, 60)] * rng.randint(2, 4) + b[a:]
        args = ["create"] + (["-t", str(rng.choice([1, 4]))]) if kind == "create" else spectrum_subs[i % 3]
        if kind == "create" and rng.random() < 0.3:
            args += ["-p", "1"]
        run_case(S, args, bytes(b), args[0], "%s %s" % (how, name), "hostile_bytes")


def shard(S, p):
    if "replay" in p:
        w = p["replay"]
        import base64
        inp = base64.b64decode(w["input_b64"]) if w.get("input_b64") else None
        argv = w["argv"]
        if w.get("stdout_to"):
            r = cli.sfs_stdout_to(argv, inp, w["stdout_to"], kind=w.get("binary", "release"), timeout=20)
        else:
            r = cli.sfs(argv, stdin=inp, kind=w.get("binary", "release"), timeout=20)
        classify(S, r, argv[0], "replay", inp, w.get("binary", "release"), "replay")
        S.case(key="replay", nontrivial=True)
        return
    part_stat_grid(S, p)
    part_options(S, p)
    part_stderr_full(S, p)
    part_stdout_gone(S, p)
    if p["i"] % 8 == 6:
        part_many_records(S, p)
    part_short(S, p)
    part_absurd(S, p)
    part_headers_non_ascii(S, p)
    part_ragged_records(S, p)
    part_samples(S, p)
    part_hostile(S, p)


def post(total, tier, seed):
    """Thorough: corpora (3)-(6) again under an AddressSanitizer binary; 300 hostile inputs through the harness under Miri."""
    if tier != "thorough" and not os.environ.get("VERIF_SANITIZERS"):
        return {"sanitizers": {"asan": "not run in quick tier", "miri": "not run in quick tier"}}
    from .. import sanitize
    files, payloads = seed_files()
    cases = []
    k = 0
    for name, (kind, data) in files.items():
        for off in range(len(data)):
            for si, f in enumerate(SUBST):
                nb = f(data[off])
                k += 1
                if nb != data[off] and k % 5 == seed % 5:
                    args = ["create"] if kind == "create" else [["view"], ["stat", "-s", "sum,s"], ["fold"]][k % 3]
                    cases.append((args, data[:off] + bytes([nb]) + data[off + 1:]))
    for name, payload in payloads.items():
        for off in range(0, len(payload), 3):
            cases.append((["create", "-t", "2"], vcfgen.bgzf(payload[:off] + bytes([payload[off] ^ 0x80]) + payload[off + 1:], [len(payload) // 2])))
    for s_ in (b"", b"#SH", b"\x93NUMPY\x01", b"\x1f\x8b", b"BCF\x02\x02"):
        for sub in (["create"], ["view"], ["fold"], ["stat", "-s", "sum"]):
            cases.append((sub, s_))
    out = {"asan": sanitize.asan_pass(total, cases, "hostile", "C17")}
    # Miri: hostile bytes through the library (format sniffing, BGZF, VCF/BCF parse, npy/text parse)
    rng = rng_for(seed, "c17-miri")
    reqs = []
    for name in ("vcf-min", "rawbcf", "vcf.gz", "bcf"):
        kind, data = files[name]
        for _ in range(50):
            off = rng.randrange(len(data))
            d = data[:off] + bytes([rng.choice(SUBST)(data[off])]) + data[off + 1:]
            reqs.append({"op": "create", "data": d.hex(), "map": None, "project": None, "threads": rng.choice([1, 2]), "mode": "scs"})
    for name in ("npy", "npy-v2-i2"):
        kind, data = files[name]
        for _ in range(50):
            off = rng.randrange(len(data))
            reqs.append({"op": "read_npy", "data": (data[:off] + bytes([rng.choice(SUBST)(data[off])]) + data[off + 1:]).hex(), "chunks": [rng.randint(1, 40)], "rest": rng.randint(1, 9)})
    # native run under a 160 MiB address-space cap: a corrupted length field that asks for gigabytes dies here (alloc failure)
    # and is left out - Miri would spend hours zeroing such a buffer; so are native panics inside dependencies (known
    # findings), which would abort the Miri process
    native = harness.run_all([dict(r) for r in reqs], mem_limit=160 << 20)
    keep = [i for i, r in enumerate(native) if "panic" not in r and not r.get("died") and not r.get("thread_panic")]
    out["miri"] = sanitize.miri_pass(total, [reqs[i] for i in keep], "hostile", "C17", expect=[native[i] for i in keep])
    return {"sanitizers": out}
