"""C02 - create --project: hypergeometric down-sampling of every covered site.

L1: per-record contribution vectors from site::Reader (Site::Projected(..).add_unchecked into a zero
spectrum, Site::Standard index, InsufficientData) against exact rational hypergeometric products.
C: the binary's printed spectrum against the exact sum; --project-individuals i == --project-shape 2i+1.
"""
import math, re
from fractions import Fraction
from .. import harness, cli
from ..common import rng_for, h2f, digest
from ..engines import create as E
from ..gen import callsets as G
from ..gen.vcfgen import CallSet, Record, gt
from ..oracle.callset import reference_create, classify
from ..oracle.hyper import hyp

LEVEL = "exploration"
NEEDS = ["harness", "cli"]
RULE = ("call sets whose per-record number of complete samples per population is steered to the boundaries (t_j = m_j - 2, m_j (exactly "
        "sufficient), m_j + 2, all, none) x random maps (1-3 populations) x projection targets (for small maps EVERY admissible m in "
        "0..2n_j per axis is visited across the run; otherwise boundary-biased); L1 compares every record's contribution vector cell by "
        "cell (relative 1e-9), C compares printed output with |printed - exact| <= 0.5*10^-p + 1e-9*R for precision p in 0..12 and checks "
        "the number of decimals; cohorts with 100-600 samples (quick: 100-260) exercise t > 170, and 514-520-sample cohorts projected to about half and 514-1000-sample cohorts with every sample called (rare to intermediate allele frequencies), projected to about half, sit where C(t, m) crosses the f64 range and hypergeometric tails underflow. Columns of samples that are not selected hold anything, other ploidies included. Non-trivial: >=1 record strictly projected "
        "(some t_j > m_j) with non-zero ALT count and >=1 insufficient or exactly-sufficient record; distinct = digest(codes, map, target).")
ASSUMPTIONS = ["exact reference: Fractions / math.comb", "floating-point allowance 1e-9 relative (measured error of the real pmf ~3e-12)"]
FLOORS = {"quick": {"evaluations": 3000, "distinct_nontrivial": 800, "counts": {"L1_records": 20000, "C_runs": 250, "exactly_sufficient_records": 500, "insufficient_records": 500}},
          "thorough": {"evaluations": 80000, "distinct_nontrivial": 20000, "counts": {"L1_records": 400000, "C_runs": 15000}}}
NSHARD = 32
REL = Fraction(1, 10 ** 9)


def plan(tier, seed):
    q = tier == "quick"
    return [{"name": "s%d" % i, "i": i, "l1": 110 if q else 2600, "c": 9 if q else 500, "cohort": (i % 8 == 0) if q else (i % 2 == 0),
             "cohort_max": 260 if q else 600} for i in range(NSHARD)]


def steered_callset(rng, samples, smap, project, nrec, multi_ok=True):
    """Records whose number of complete samples per population sits on/around the projection boundary."""
    pops = []
    for _, p in smap:
        if p not in pops:
            pops.append(p)
    members = {j: [s for s, p in dict(smap).items() if p == q] for j, q in enumerate(pops)}
    col = {s: i for i, s in enumerate(samples)}
    records = []
    for ri in range(nrec):
        gts = [G.random_gt(rng, rng.choice(["complete", "missing"]), 1) for _ in samples]
        two_alts = multi_ok and rng.random() < 0.3
        assigned = dict(smap)
        for i, s_ in enumerate(samples):
            # columns that are not selected may hold anything, other ploidies included (males on a sex chromosome, ...)
            if s_ not in assigned and rng.random() < 0.35:
                a = G.wchoice(rng, [(x, w) for x, w in G.GT_JUNK_PLOIDY if max([y for y in x if y is not None] + [0]) <= (2 if two_alts else 1)])
                gts[i] = gt(a, rng.random() < 0.5)
        for j, mem in members.items():
            need = (project[j] + 1) // 2
            n = len(mem)
            choice = rng.random()
            if choice < 0.2:
                c = need
            elif choice < 0.35:
                c = max(0, need - 1)
            elif choice < 0.5:
                c = min(n, need + 1)
            elif choice < 0.65:
                c = n
            elif choice < 0.7:
                c = 0
            else:
                c = rng.randint(0, n)
            c = min(n, max(0, c))
            comp = set(rng.sample(mem, c))
            pfreq = rng.choice([0.0, 0.05, 0.5, 0.95, 1.0, rng.random()])
            for s in mem:
                if s in comp:
                    a = (1 if rng.random() < pfreq else 0, 1 if rng.random() < pfreq else 0)
                    gts[col[s]] = gt(a, rng.random() < 0.3)
                elif two_alts and rng.random() < 0.4:
                    gts[col[s]] = G.random_gt(rng, "multi", 2)
                else:
                    gts[col[s]] = G.random_gt(rng, "missing", 1)
        if records and rng.random() < 0.06:
            # the previous record once more (same position, same calls): it contributes its term again
            records.append(Record("c1", records[-1].pos, list(records[-1].gts), alts=list(records[-1].alts)))
            continue
        records.append(Record("c1", 10 + ri, gts, alts=["C", "G"] if two_alts else ["C"]))
    return CallSet(samples, [("c1", 10 ** 6)], records)


def gen(seed, labels, cohort_max=None):
    rng = rng_for(seed, "c02", *labels)
    if cohort_max == "overflow-band":
        # binomial coefficients cross the f64 range around 1030 chromosomes: C(1030, 515) is just above f64::MAX
        # one size per overflow-band shard (every fourth shard), so that each run visits all of them whatever the seed
        try:
            k_ = int(str(labels[0])[1:]) // 4
        except ValueError:
            k_ = rng.randrange(8)
        ns = [515, 516, 514, 538, 545, 600, 1000, 530][k_ % 8]
        npops = 1
        nrec = 3
    elif cohort_max:
        ns = rng.randint(100, cohort_max)
        npops = rng.choice([1, 1, 2])
        nrec = rng.randint(6, 14)
    else:
        ns = rng.choice([1, 2, 3, 4, 5, 6, 8, 12, 20, 31, 32, 33, 34, 40, 50, 64])
        npops = rng.randint(1, min(3, ns))
        nrec = rng.choice([1, 2, 5, 10, 30, 80])
    samples = G.sample_names(rng, ns)
    smap = G.random_sample_map(rng, samples, npops=npops, subset=rng.random() < 0.5 and not cohort_max)
    if cohort_max == "overflow-band" and labels[-1] % 2 == 1:
        # two populations: each factor C(t_j, m_j) fits an f64 on its own, their product does not (a big cohort next to a small one)
        nb_ = rng.choice([480, 500, 505, 510])
        nsm_ = rng.randint(8, 24)
        samples = G.sample_names(rng, nb_ + nsm_)
        smap = [(s_, "big" if j_ < nb_ else "small") for j_, s_ in enumerate(samples)]
        if rng.random() < 0.5:
            smap = smap[nb_:] + smap[:nb_]
    sizes = G.pop_sizes(smap)
    if labels and isinstance(labels[-1], int) and sum(sizes) <= 6 and not cohort_max:
        # systematic sweep: case number i visits target number i of the full product 0..2n_j
        space = 1
        for z in sizes:
            space *= 2 * z + 1
        t = labels[-1] % space
        project = []
        for z in sizes:
            project.append(t % (2 * z + 1))
            t //= (2 * z + 1)
    else:
        project = G.random_project(rng, smap)
        if cohort_max == "overflow-band":
            project = [rng.choice([515, 514, 516, 517, z, z + 1, z - 1]) if z < 530 else rng.choice([z, z + 1, z - 2, z // 2, 538]) for z in sizes]
            project = [min(2 * z, m_) for m_, z in zip(project, sizes)]
            if len(sizes) == 2:
                project = [rng.choice([z, z + 1, z - 1]) for z in sizes]        # near-central targets in both populations
        elif cohort_max:
            project = [rng.choice([2 * z, 2 * z - 1, 171, 172, 170, rng.randint(1, 2 * z), z, 2 * (z // 2)]) for z in sizes]
            project = [min(2 * z, max(0, m)) for m, z in zip(project, sizes)]
    if cohort_max == "overflow-band":
        # every sample complete (t = 2n exactly), allele frequencies from rare to common: the numerator binomials stay finite
        # for small ALT counts while C(t, m) overflows
        recs = []
        for ri in range(7):
            pf = [0.0, 0.002, 0.01, 0.1, 0.5, 0.99, 0.45][ri]
            recs.append(Record("c1", 10 + ri, [gt((1 if rng.random() < pf else 0, 1 if rng.random() < pf else 0), False) for _ in samples]))
        cs = CallSet(samples, [("c1", 10 ** 6)], recs)
    else:
        cs = steered_callset(rng, samples, smap, project, nrec)
    return {"cs": cs, "map": smap, "project": project, "labels": labels, "precision": rng.choice([0, 1, 2, 3, 6, 6, 9, 12, 15, 17, 25, 60, 308, 309, 320, 1000]),
            "container": rng.choice(E.CONTAINERS), "seed2": rng.randrange(1 << 30), "cohort_max": cohort_max}


def record_expectation(cs, smap, project, r):
    """-> ('I',) or ('V', {index tuple: Fraction}) for one record."""
    pops = []
    for _, p in smap:
        if p not in pops:
            pops.append(p)
    assign = dict(smap)
    a = [0] * len(pops)
    t = [0] * len(pops)
    for s, g in zip(cs.samples, r.gts):
        if s in assign:
            c = classify(g)
            if c[0] == "geno":
                j = pops.index(assign[s])
                a[j] += c[1]
                t[j] += 2
    if any(tj < mj for tj, mj in zip(t, project)):
        return ("I",), t, a
    per = [[hyp(k, t[j], a[j], project[j]) for k in range(project[j] + 1)] for j in range(len(pops))]
    return ("V", per), t, a


def vec_from_per(per, shape):
    import itertools
    out = []
    for ix in itertools.product(*[range(s) for s in shape]):
        w = Fraction(1)
        for j, k in enumerate(ix):
            w *= per[j][k]
            if w == 0:
                break
        out.append(w)
    return out


def check_L1(S, cases):
    reqs = [E.l1_request(c["cs"], c["map"], c["project"]) for c in cases]
    for k_, (c, q_) in enumerate(zip(cases, reqs)):
        # the order in which the reader builder is given its options is the caller's business, not the result's
        q_["setters"] = ["samples-first", "project-first", "samples-twice"][(k_ + c["seed2"]) % 3]
        S.observe("builder_setter_order", q_["setters"])
    for c, r in zip(cases, harness.run_all(reqs)):
        cs, smap, project = c["cs"], c["map"], c["project"]
        shape = [m + 1 for m in project]
        wit = {"labels": c["labels"], "cohort_max": c["cohort_max"], "level": "L1", "map": E.map_json(smap), "project_shape": shape, "codes": E.codes(cs)[:200], "samples": cs.samples}
        tag = "L1 %s target %r" % ("/".join(map(str, c["labels"])), shape)
        if "events" not in r:
            S.viol("C02:fail:L1", "[%s] no events: %s" % (tag, str(r)[:300]), wit)
            continue
        if len(r["events"]) != len(cs.records):
            S.viol("C02:events:L1", "[%s] %d events for %d records" % (tag, len(r["events"]), len(cs.records)), wit)
            continue
        strictly, boundary = False, False
        for ri, (rec, ev) in enumerate(zip(cs.records, r["events"])):
            exp, t, a = record_expectation(cs, smap, project, rec)
            S.count("L1_records")
            if exp[0] == "I":
                S.count("insufficient_records")
                boundary = True
                if ev["k"] != "I":
                    S.viol("C02:insufficient-counted", "[%s record %d] t=%r < m=%r for some population but the site contributed (%s)" % (tag, ri, t, project, ev["k"]), wit)
                continue
            if t == project:
                S.count("exactly_sufficient_records")
                boundary = True
            elif any(a):
                strictly = True
            if ev["k"] == "I":
                S.viol("C02:covered-skipped", "[%s record %d] t=%r >= m=%r for all populations but the site was skipped" % (tag, ri, t, project), wit)
                continue
            if ev["k"] == "E":
                S.viol("C02:error", "[%s record %d] unexpected error %s" % (tag, ri, ev.get("msg")), wit)
                continue
            expv = vec_from_per(exp[1], shape)
            if ev["k"] == "S":
                got = [0.0] * len(expv)
                import itertools
                ixs = list(itertools.product(*[range(s) for s in shape]))
                if tuple(ev["idx"]) in ixs:
                    got[ixs.index(tuple(ev["idx"]))] = 1.0
                else:
                    S.viol("C02:index", "[%s record %d] Standard index %r outside target shape" % (tag, ri, ev["idx"]), wit)
                    continue
            else:
                got = [h2f(x) for x in ev["v"]]
            bad = [(j, g, float(e)) for j, (g, e) in enumerate(zip(got, expv))
                   if not math.isfinite(g) or abs(Fraction(g) - e) > REL * max(e, Fraction(1, 10 ** 290)) + Fraction(1, 10 ** 300)]
            if len(got) != len(expv) or bad:
                S.viol("C02:contribution" + (":nonfinite" if any(not math.isfinite(g) for g in got) else ""),
                       "[%s record %d] t=%r a=%r m=%r: (flat, got, exact) %r" % (tag, ri, t, a, project, bad[:5]), wit)
        S.case(key=digest([E.codes(cs), E.map_json(smap), project]), nontrivial=strictly and boundary)
        if c["labels"][-1] == 1 and c["labels"][0] == "s0":
            S.sample({"level": "L1", "map": E.map_json(smap), "project_shape": shape, "codes": E.codes(cs)[:4],
                      "events": [{k: (v if k != "v" else [h2f(x) for x in v]) for k, v in e.items()} for e in r["events"][:4]]})


def dec_re(p):
    return re.compile(r"^[0-9]+$" if p == 0 else r"^[0-9]+\.[0-9]{%d}$" % p)


def check_C(S, cases):
    for c in cases:
        cs, smap, project, p = c["cs"], c["map"], c["project"], c["precision"]
        data = E.encode(cs, c["container"], rng_for(c["seed2"]))
        r = E.cli_create(data, smap, project=project, extra=["--precision", str(p)])
        S.count("C_runs")
        exp = reference_create(cs, smap, project)
        wit = {"labels": c["labels"], "cohort_max": c["cohort_max"], "level": "C", "argv": r.argv, "input_b64": E.b64(data) if len(data) < 300000 else None, "run": r.brief(), "map": E.map_json(smap)}
        tag = "C %s target %r precision %d" % ("/".join(map(str, c["labels"])), exp.shape, p)
        parsed = E.parse_text_spectrum(r.out) if r.rc == 0 else None
        if parsed is None or parsed[0] != exp.shape or len(parsed[1]) != len(exp.cells):
            S.viol("C02:cli-output", "[%s] rc %s stdout %r stderr %r (expected shape %r)" % (tag, r.rc, r.out[:150], r.err[:200], exp.shape), wit)
        else:
            R = len(cs.records)
            rx = dec_re(p)
            badfmt = [t for t in parsed[1] if not rx.match(t)]
            if badfmt:
                S.viol("C02:decimals", "[%s] tokens not printed to %d decimals: %r" % (tag, p, badfmt[:5]), wit)
            else:
                tol = Fraction(1, 2 * 10 ** p) + REL * R
                bad = [(j, t, float(e)) for j, (t, e) in enumerate(zip(parsed[1], exp.cells)) if abs(Fraction(t) - e) > tol]
                if bad:
                    S.viol("C02:cli-value", "[%s] (flat, printed, exact) %r" % (tag, bad[:5]), wit)
            sk, summary, _ = E.parse_stderr(r.err)
            if (summary or (0, 0))[0] != len(exp.skipped):
                S.viol("C02:cli-skipped", "[%s] stderr reports %r skipped, reference %d" % (tag, summary, len(exp.skipped)), wit)
        # --project-individuals i == --project-shape 2i+1
        if all(m % 2 == 0 for m in project):
            r2 = E.cli_create(data, smap, project=project, project_via="individuals", extra=["--precision", str(p)])
            S.count("C_runs")
            S.count("C_individuals_vs_shape")
            if r2.rc != r.rc or r2.out != r.out:
                S.viol("C02:individuals-vs-shape", "[%s] --project-individuals output differs: %r vs %r" % (tag, r2.out[:150], r.out[:150]), wit)
        S.case(key=digest([E.codes(cs), E.map_json(smap), project, p, "C"]), nontrivial=bool(exp.skipped) and exp.counted > 0)
        if c["labels"][-1] == 0 and c["labels"][0] == "s1":
            S.sample({"level": "C", "argv": r.argv, "stdout": r.out.decode()[:300], "exact": [float(x) for x in exp.cells][:12]})


def shard(S, p):
    seed = S.seed
    if "replay" in p:
        w = p["replay"]
        c = gen(seed, w["labels"], cohort_max=w.get("cohort_max"))
        (check_C if w["level"] == "C" else check_L1)(S, [c])
        return
    check_L1(S, [gen(seed, [p["name"], "L1", i]) for i in range(p["l1"])])
    check_C(S, [gen(seed, [p["name"], "C", i]) for i in range(p["c"])])
    if p["i"] % 4 == 3:
        # one cohort in the single-population band and one in the two-population band
        ob = [gen(seed, [p["name"], "overflow-band", 0], cohort_max="overflow-band"), gen(seed, [p["name"], "overflow-band", 1], cohort_max="overflow-band")]
        check_L1(S, ob)
        S.count("overflow_band_cohorts", len(ob))
    if p["cohort"]:
        co = [gen(seed, [p["name"], "cohort", i], cohort_max=p["cohort_max"]) for i in range(2)]
        for c in co:
            c["labels"] = c["labels"]
        check_L1(S, co)
        S.count("cohort_cases", len(co))
        check_C(S, co[:1])
