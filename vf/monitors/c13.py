"""C13 - view = marginalize > project > mask > normalize, equal to chained single steps.

C: a combined `sfs view` invocation vs the chain of single-option invocations piped losslessly
(-O npy) in the documented order: byte equality of the final output; plus direct checks of
--mask-monomorphic, --normalize and plain `view` on the observed outputs.
"""
import itertools, math, struct
from fractions import Fraction
import numpy as np, io
from .. import cli
from ..common import rng_for, digest
from ..engines import create as E
from ..gen import spectra as GS
from ..oracle import spectrum as O
from ..oracle.hyper import project_exact

LEVEL = "exploration"
NEEDS = ["cli"]
RULE = ("spectra with 1-4 axes (lengths 1-6 incl. axes of length 1; positive real / integer values, a quarter of the inputs signed (differences, fold --fill minus-one output); npy or text input) x ALL 16 subsets of "
        "{marginalize, project, mask-monomorphic, normalize} x random admissible axis sets (-m or -M) and targets (--project-shape or "
        "-individuals) x output {text precision 0/6/12/18/30, npy}; each combined run is compared byte-for-byte with the chain of single-option runs "
        "through npy pipes, and (npy / precision >= 12 output) cell by cell with the documented pipeline evaluated in exact rational arithmetic (1e-9 of sum|x|). The last combined command of every input also with `-o FILE` (path absent / empty / longer earlier result / longer garbage / the input itself): the file must hold the bytes a pipe receives. Four spectra with more than 2^16 entries through plain / -n / mask view in text and npy. Direct checks: mask zeroes exactly the first and last cell, normalize sums to 1 (1e-12*cells) and preserves ratios "
        "(1e-12), plain view reproduces the input within 0.5*10^-p. Non-trivial: >=2 options active; distinct = digest(input, argv).")
ASSUMPTIONS = ["npy pipes between chained invocations are lossless (C07/C15 check that separately)"]
FLOORS = {"quick": {"evaluations": 500, "distinct_nontrivial": 300, "counts": {"combined_vs_chain": 500, "mask_checks": 100, "normalize_checks": 100, "pipeline_vs_exact": 250, "signed_inputs": 10, "big_spectrum_runs": 40, "output_path_runs": 100}},
          "thorough": {"evaluations": 30000, "distinct_nontrivial": 15000, "counts": {"combined_vs_chain": 30000}}}
NSHARD = 32


def plan(tier, seed):
    q = tier == "quick"
    return [{"name": "s%d" % i, "i": i, "n": 8 if q else 64} for i in range(NSHARD)]


def load_npy(b):
    return np.load(io.BytesIO(b), allow_pickle=False)


def check_big(S, p):
    """Spectra with more than 2^16 entries through plain / normalizing / masking `view`, text and npy output."""
    rng = rng_for(S.seed, "c13", p["name"], "big")
    shape = rng.choice([[65537], [300, 300], [70001], [17, 17, 17, 17], [2, 32769], [131073], [41, 41, 41]])
    n = O.prod(shape)
    vals = [float((k * 7919) % 1000 + 1) for k in range(n)]
    inp = GS.npy_bytes(shape, vals) if rng.random() < 0.5 else GS.text_spectrum(shape, vals, 0)
    tot = sum(vals)
    # the normalizing run several times: a total accumulated by several threads must come out the same every time
    for args, exp in [(["view", "--precision", "2"], vals), (["view", "--mask-monomorphic", "-O", "npy"], [0.0] + vals[1:-1] + [0.0]), (["view", "-O", "npy"], vals)] + \
                     [(["view", "-n", "--precision", "12"], [v / tot for v in vals])] * 8:
        r = cli.sfs(args, stdin=inp, timeout=120)
        S.count("big_spectrum_runs")
        wit = {"level": "C", "argv": r.argv, "big_shape": shape, "input": "value k = (k * 7919) %% 1000 + 1 as %s" % ("npy" if inp[:1] == b"\x93" else "text"), "run": r.brief()}
        if r.rc != 0:
            S.viol("C13:fail", "[C %s on shape %r (%d entries)] rc %s %r" % (" ".join(args), shape, n, r.rc, r.err[:200]), wit)
            continue
        if "npy" in args:
            arr = load_npy(r.out)
            got_shape, got = list(arr.shape), [float(x) for x in arr.reshape(-1)]
        else:
            ps = E.parse_text_spectrum(r.out)
            try:
                got_shape, got = (ps[0], [float(t) for t in ps[1]]) if ps else (None, [])
            except ValueError as e_:
                S.viol("C13:big-spectrum", "[C %s on shape %r] the output holds a token that is not a number: %s" % (" ".join(args), shape, e_), wit)
                continue
        tol = 1e-9 if "npy" in args else 0.5 * 10.0 ** -int(args[-1]) + 1e-12
        bad = [(j, g, e) for j, (g, e) in enumerate(zip(got, exp)) if abs(g - e) > tol]
        if got_shape != shape or len(got) != n or bad:
            S.viol("C13:big-spectrum", "[C %s on shape %r] output has shape %r and %d values (expected %d); first differences (flat, got, expected) %r" % (
                " ".join(args), shape, got_shape, len(got), n, bad[:3]), wit)
        S.case(key=digest(["big", shape, args]), nontrivial=True)
    # projection (and marginalize > project) of a sparse spectrum with thousands of cells, against exact rational arithmetic
    for shape2, to2, marg in (([4099], [21], None), ([70, 71], [9, 8], None), ([8193], [33], None), ([17, 17, 17], [5, 7], 0), ([65, 67], [64, 66], None)):
        if rng.random() < 0.4:
            continue
        n2 = O.prod(shape2)
        vals2 = [0.0] * n2
        for k in [n2 - 1, n2 - 2, 0, n2 // 2] + [rng.randrange(n2) for _ in range(5)]:
            vals2[k] = float(rng.randint(1, 50))
        inp2 = GS.npy_bytes(shape2, vals2)
        args2 = ["view"] + (["-m", str(marg)] if marg is not None else []) + ["--project-shape", ",".join(map(str, to2)), "-O", "npy"]
        r2 = cli.sfs(args2, stdin=inp2, timeout=120)
        S.count("big_spectrum_runs")
        ex_shape, ex = list(shape2), [Fraction(v) for v in vals2]
        if marg is not None:
            ex_shape, ex = O.marginalize(ex_shape, ex, [marg])
        ex = project_exact(ex_shape, ex, to2)
        wit2 = {"level": "C", "argv": r2.argv, "big_shape": shape2, "nonzero": [[k, v] for k, v in enumerate(vals2) if v], "run": r2.brief()}
        if r2.rc != 0:
            S.viol("C13:fail", "[C %s on sparse shape %r] rc %s %r" % (" ".join(args2), shape2, r2.rc, r2.err[:200]), wit2)
            continue
        arr = load_npy(r2.out)
        got2 = [float(x) for x in arr.reshape(-1)]
        scale2 = sum(abs(e) for e in ex) or Fraction(1)
        bad2 = [(j, g, float(e)) for j, (g, e) in enumerate(zip(got2, ex)) if not math.isfinite(g) or abs(Fraction(g) - e) > scale2 / 10 ** 9]
        if list(arr.shape) != to2 or len(got2) != len(ex) or bad2:
            S.viol("C13:big-spectrum", "[C %s on sparse shape %r] output shape %r; (flat, got, exact) %r; mass %r of %r" % (
                " ".join(args2), shape2, list(arr.shape), bad2[:4], sum(got2), float(sum(ex))), wit2)
        S.case(key=digest(["bigproj", shape2, to2]), nontrivial=True)


def shard(S, p):
    if "replay" in p:
        S.inconc("witness carries argv + input for manual replay")
        return
    if p["i"] % 8 == 0:
        check_big(S, p)
    seed = S.seed
    for i in range(p["n"]):
        rng = rng_for(seed, "c13", p["name"], i)
        shape = GS.random_shape(rng, 1, 4, 6)
        if rng.random() < 0.35:
            shape[rng.randrange(len(shape))] = 1
        signed = rng.random() < 0.25
        if signed:
            # difference / residual spectra and `fold --fill minus-one` output hold negative entries: every step is linear in them
            vals = GS.values(rng, O.prod(shape), rng.choice(["signed", "dyadic"]))
            if rng.random() < 0.5:
                vals = [v if rng.random() < 0.7 else -1.0 for v in vals]
            S.count("signed_inputs")
        else:
            vals = GS.values(rng, O.prod(shape), rng.choice(["positive", "positive", "int"]))
            vals = [v + 1.0 for v in vals]
        if signed:
            pass
        elif rng.random() < 0.15:
            vals = [v * 2.0 ** -60 for v in vals]            # a spectrum in very small units: its total is far below f64::EPSILON
            S.count("tiny_total_inputs")
        elif rng.random() < 0.3:
            tot = sum(vals)
            vals = [v / tot for v in vals]        # an input that is already a frequency spectrum
            S.count("normalized_inputs")
            if rng.random() < 0.6:
                # ... or ALMOST one: the total is off by 1e-9 .. 1e-2 (a spectrum that went through rounding, or lost a class)
                off = 1.0 + rng.choice([1e-9, 1e-7, 1e-6, 3e-6, 1e-5, 1e-4, 4e-4, 1e-3, 1e-2, 2e-7 * len(vals)]) * rng.choice([1, -1])
                vals = [v * off for v in vals]
                S.count("nearly_normalized_inputs")
        inp = GS.npy_bytes(shape, vals) if (rng.random() < 0.7 or max(vals) < 1e-6) else GS.text_spectrum(shape, vals, 17)
        d = len(shape)
        for subset in itertools.product([False, True], repeat=4):
            use_m, use_p, use_k, use_n = subset
            if use_m and d < 2:
                use_m = False
            margs, cur = [], list(shape)
            if use_m:
                k = rng.randint(1, d - 1)
                remove = rng.sample(range(d), k)
                if rng.random() < 0.5:
                    margs = ["-m", ",".join(map(str, remove))]
                else:
                    keep = [j for j in range(d) if j not in remove]
                    if rng.random() < 0.3:
                        keep = keep + [rng.choice(keep) for _ in range(rng.randint(1, 2))]      # an axis named twice is still one axis
                    rng.shuffle(keep)
                    margs = ["-M", ",".join(map(str, keep))]
                cur = [s for j, s in enumerate(shape) if j not in remove]
            pargs = []
            if use_p:
                to = [rng.randint(1, s) for s in cur]
                if all(t % 2 == 1 for t in to) and rng.random() < 0.5:
                    pargs = ["-p", ",".join(str((t - 1) // 2) for t in to)]
                else:
                    pargs = ["--project-shape", ",".join(map(str, to))]
                cur = to
            kargs = ["--mask-monomorphic"] if use_k else []
            nargs = ["-n"] if use_n else []
            if use_k and use_n and O.prod(cur) <= 2:
                nargs = []              # masking everything and then normalizing divides 0 by 0: outside the comparison
                use_n = False
            # exact reference of the documented pipeline (rational arithmetic)
            ex_shape, ex = list(shape), [Fraction(v) for v in vals]
            if use_m:
                ex_shape, ex = O.marginalize(ex_shape, ex, remove)
            if use_p:
                ex = project_exact(ex_shape, ex, to)
                ex_shape = list(to)
            if use_k:
                ex[0] = Fraction(0)
                ex[-1] = Fraction(0)
            if use_n:
                tot_ = sum(ex)
                if abs(tot_) * 1000 < sum(abs(e) for e in ex) or tot_ == 0:
                    nargs = []          # a signed spectrum whose entries (nearly) cancel: normalizing it is ill-conditioned, left out
                    use_n = False
                else:
                    ex = [e / tot_ for e in ex]
            fmt = rng.choice(["text0", "text6", "text12", "npy", "text18", "text30"])
            oargs = ["-O", "npy"] if fmt == "npy" else ["--precision", fmt[4:]]
            combined = cli.sfs(["view"] + margs + pargs + kargs + nargs + oargs, stdin=inp)
            stages = [a for a in (margs, pargs, kargs, nargs) if a]
            data, chain_ok, chain_runs = inp, True, []
            for si, a in enumerate(stages):
                last = si == len(stages) - 1
                r = cli.sfs(["view"] + a + (oargs if last else ["-O", "npy"]), stdin=data)
                chain_runs.append(r)
                if r.rc != 0:
                    chain_ok = False
                    break
                data = r.out
            if not stages:
                r = cli.sfs(["view"] + oargs, stdin=inp)
                chain_runs.append(r)
                data = r.out
                chain_ok = r.rc == 0
            S.count("combined_vs_chain")
            S.observe("option_subsets", "".join("MPKN"[j] if f else "-" for j, f in enumerate((bool(margs), bool(pargs), bool(kargs), bool(nargs)))))
            from .. import replay as R
            wit = {"level": "C", "input_b64": E.b64(inp), "combined_argv": combined.argv, "chain": [r.argv for r in chain_runs], "combined": combined.brief(),
                   "replay": R.pipeline_same([combined], chain_runs)}
            tag = "C view %s on shape %r" % (" ".join(margs + pargs + kargs + nargs + oargs), shape)
            if combined.rc != 0 or not chain_ok:
                S.viol("C13:fail", "[%s] combined rc %s (%r), chain ok=%s (%r)" % (tag, combined.rc, combined.err[:150], chain_ok, chain_runs[-1].err[:150]), wit)
            elif combined.out != data:
                S.viol("C13:combined-vs-chain", "[%s] combined output differs from the chained single steps: %r vs %r" % (tag, combined.out[-160:], data[-160:]), wit)
            elif fmt in ("npy", "text12", "text18", "text30"):
                # ... and both equal the documented pipeline evaluated exactly
                if fmt == "npy":
                    arr = load_npy(combined.out)
                    got_shape, got = list(arr.shape), [float(x) for x in arr.reshape(-1)]
                else:
                    ps = E.parse_text_spectrum(combined.out)
                    got_shape, got = (ps[0], [float(t) for t in ps[1]]) if ps else (None, [])
                S.count("pipeline_vs_exact")
                scale = max(sum(abs(e) for e in ex), Fraction(1, 10 ** 300)) if not use_n else Fraction(1)
                tol = scale / 10 ** 9 + (Fraction(1, 10 ** int(fmt[4:])) if fmt != "npy" else 0)
                bad = [(j, g, float(e)) for j, (g, e) in enumerate(zip(got, ex)) if not math.isfinite(g) or abs(Fraction(g) - e) > tol]
                if got_shape != ex_shape or len(got) != len(ex) or bad:
                    S.viol("C13:pipeline-value", "[%s, %s values] output shape %r differs from the documented pipeline evaluated exactly (shape %r): (flat, got, exact) %r" % (
                        tag, "signed" if signed else "positive", got_shape, ex_shape, bad[:4]), wit)
            S.case(key=digest([inp.hex()[:2000], combined.argv]), nontrivial=len(stages) >= 2)
            if i == 0 and p["i"] == 0 and subset == (True, True, True, True):
                S.sample({"combined": combined.argv, "chain": [r.argv for r in chain_runs], "stdout": combined.out[:200].decode("latin1")})
        from ..engines import outpath
        outpath.check_file_equals_pipe(S, "C13:file-vs-pipe", "C view on shape %r" % shape, rng, ["view"] + margs + pargs + kargs + nargs + oargs, inp)
        # direct checks through npy
        base = load_npy(cli.sfs(["view", "-O", "npy"], stdin=inp).out)
        if not np.array_equal(base.reshape(-1), np.array(vals)) and inp[:1] == b"\x93":
            S.viol("C13:plain-view", "[C view -O npy on shape %r] plain view changed the values" % shape, {"level": "C", "input_b64": E.b64(inp)})
        masked = load_npy(cli.sfs(["view", "--mask-monomorphic", "-O", "npy"], stdin=inp).out).reshape(-1)
        S.count("mask_checks")
        flat = base.reshape(-1)
        exp = flat.copy()
        exp[0] = 0.0
        exp[-1] = 0.0
        if not np.array_equal(masked, exp):
            S.viol("C13:mask", "[C view --mask-monomorphic on shape %r] must zero exactly the first and the last cell: got %r from %r" % (shape, masked[:6].tolist(), flat[:6].tolist()),
                   {"level": "C", "input_b64": E.b64(inp)})
        normed = load_npy(cli.sfs(["view", "-n", "-O", "npy"], stdin=inp).out).reshape(-1)
        S.count("normalize_checks")
        tot = sum(Fraction(float(x)) for x in flat)
        s1 = sum(Fraction(float(x)) for x in normed)
        if signed and abs(tot) * 1000 < sum(abs(Fraction(float(x))) for x in flat):
            pass        # entries (nearly) cancel: ill-conditioned, not judged
        elif abs(s1 - 1) > Fraction(len(flat), 10 ** 12) or any(abs(Fraction(float(a)) * tot - Fraction(float(b))) > abs(Fraction(float(b))) / 10 ** 12 for a, b in zip(normed, flat)):
            S.viol("C13:normalize", "[C view -n on shape %r] sum %r, ratios not preserved" % (shape, float(s1)), {"level": "C", "input_b64": E.b64(inp)})
        for prec in (0, 6, 12, 18, 25, 60):
            r = cli.sfs(["view", "--precision", str(prec)], stdin=inp)
            ps = E.parse_text_spectrum(r.out) if r.rc == 0 else None
            S.count("plain_view_checks")
            wrong_decimals = ps is not None and any(len(t.split(".")[1] if "." in t else "") != prec for t in ps[1])
            if ps is None or ps[0] != shape or wrong_decimals or any(abs(Fraction(t) - Fraction(float(x))) > Fraction(1, 2 * 10 ** prec) for t, x in zip(ps[1], flat)):
                S.viol("C13:plain-view", "[C view --precision %d on shape %r] does not reproduce the input to the printed precision: %r" % (prec, shape, r.out[:120]),
                       {"level": "C", "input_b64": E.b64(inp)})
