"""C07 - spectrum files round-trip through text and npy; the tool reads what it writes.

L: write::Builder::write -> bytes -> Array::read_npy / read::Builder (file) with exact decimal<->binary
reasoning (Fractions). C: the writer x reader x format x transport matrix and text->npy->text.
"""
import math, re
from fractions import Fraction
from .. import harness, cli
from ..common import rng_for, h2f, f2h, digest
from ..engines import create as E
from ..gen import spectra as GS, callsets as GC
from ..oracle import spectrum as O

LEVEL = "exploration"
NEEDS = ["harness", "cli"]
RULE = ("L: shapes with 1-6 axes (lengths 1-7, plus one array with > 8192 entries per shard) x values {integers, dyadics, random doubles, wide "
        "exponents, +-0, subnormals, 1e+-300, max double, +-inf, NaN, tiny doubles whose top byte is an ASCII whitespace byte (as the LAST element)} x precision 0..17; npy: bits identical after write->read; text: every printed "
        "finite token d satisfies |d - x| <= 0.5*10^-p exactly and the value read back is float(d) bit for bit (NaN<->NaN, inf<->inf). C: writers "
        "{create, view, fold} x formats {text, npy} x transport {file, pipe} (the -o path absent, empty, holding a longer earlier spectrum or longer garbage, or being the input itself; the file must equal what the same command writes to a pipe) -> readers {view, fold, stat} via {stdin pipe, regular file with a conventional / misleading / no extension (stdin /dev/null or an idle pseudo-terminal), /dev/stdin, named pipe} with auto-detection; text->npy->text at "
        "the same precision reproduces the text when values have <= 15 significant digits. Non-trivial: non-constant data; distinct = digest(shape, bits, precision).")
ASSUMPTIONS = ["Python's float(str) is correctly rounded (IEEE round-half-even), used as the reference for reading decimals",
               "-0 and 0 are the same number for text; NaN payloads only compared for npy"]
FLOORS = {"quick": {"evaluations": 3000, "distinct_nontrivial": 2500, "counts": {"L_npy_roundtrips": 1200, "L_text_roundtrips": 1200, "C_matrix_runs": 300, "C_million_value_runs": 2, "C_terminal_stdin_runs": 10}},
          "thorough": {"evaluations": 120000, "distinct_nontrivial": 100000, "counts": {"L_npy_roundtrips": 50000, "L_text_roundtrips": 50000, "C_matrix_runs": 9000}}}
NSHARD = 32


def plan(tier, seed):
    q = tier == "quick"
    return [{"name": "s%d" % i, "i": i, "l": 45 if q else 7000, "c": 3 if q else 350} for i in range(NSHARD)]


def token_ok(tok, x, p):
    """Is the printed token an acceptable rendering of x at precision p? Returns (ok, reason)."""
    if math.isnan(x):
        return tok == "NaN", "NaN must print as NaN"
    if math.isinf(x):
        return tok == ("inf" if x > 0 else "-inf"), "infinity must print as inf/-inf"
    if not re.match(r"^-?[0-9]+(\.[0-9]+)?$", tok):
        return False, "not a plain decimal"
    frac = tok.split(".")[1] if "." in tok else ""
    if len(frac) != p:
        return False, "has %d decimals, expected %d" % (len(frac), p)
    d = Fraction(tok)
    if abs(d - Fraction(x)) > Fraction(1, 2 * 10 ** p):
        return False, "is off by more than half a unit of the last decimal"
    return True, ""


def check_L(S, p):
    seed = S.seed
    cases = []
    for i in range(p["l"]):
        rng = rng_for(seed, "c07", p["name"], "L", i)
        if i == 0:
            shape = rng.choice([[8193], [91, 91], [3, 2800], [21, 21, 21]])
        else:
            shape = GS.random_shape(rng, 1, 6, 7 if rng.random() < 0.5 else 3)
        kind = rng.choice(["int", "dyadic", "real", "wide", "special", "special", "bigint", "signed", "ws-top-byte"])
        vals = GS.values(rng, O.prod(shape), kind)
        prec = rng.randint(0, 17)
        cases.append((shape, vals, prec, kind))
    reqs = []
    for shape, vals, prec, kind in cases:
        base = {"op": "spec", "do": "write", "shape": shape, "data": GS.hexes(vals)}
        reqs.append(dict(base, fmt="npy", precision=prec))
        reqs.append(dict(base, fmt="text", precision=prec))
    res = harness.run_all(reqs)
    read_reqs, owners = [], []
    for ci, (shape, vals, prec, kind) in enumerate(cases):
        wn, wt = res[2 * ci], res[2 * ci + 1]
        wit = {"level": "L", "shape": shape, "data": GS.hexes(vals)[:400], "precision": prec}
        if not wn.get("ok") or not wt.get("ok"):
            S.viol("C07:write-fail", "[L shape %r precision %d] write failed: %s / %s" % (shape, prec, str(wn)[:150], str(wt)[:150]), wit)
            continue
        read_reqs.append({"op": "read_npy", "data": wn["bytes"]})
        owners.append(("npy", ci, None))
        text = bytes.fromhex(wt["bytes"])
        path = E.tmpfile(text, ".sfs")
        read_reqs.append({"op": "read_file", "path": path})
        owners.append(("text", ci, text))
        # npy written bytes also through the auto-detecting file reader
        read_reqs.append({"op": "read_file", "path": E.tmpfile(bytes.fromhex(wn["bytes"]), ".npy")})
        owners.append(("npy-file", ci, None))
    for (what, ci, text), r in zip(owners, harness.run_all(read_reqs)):
        shape, vals, prec, kind = cases[ci]
        bits = GS.hexes(vals)
        wit = {"level": "L", "shape": shape, "data": bits[:400], "precision": prec, "kind": kind}
        tag = "L %s shape %r precision %d %s" % (what, shape if len(shape) < 8 else shape[:8], prec, kind)
        if what in ("npy", "npy-file"):
            S.count("L_npy_roundtrips")
            if r.get("shape") != shape or r.get("data") != bits:
                bad = [(i, a, b) for i, (a, b) in enumerate(zip(r.get("data", []), bits)) if a != b][:3]
                S.viol("C07:npy-roundtrip", "[%s] write->read is not bit-identical: %s shape %r, first differences (index, read, written) %r" % (
                    tag, r.get("err", ""), r.get("shape"), bad), wit)
        else:
            S.count("L_text_roundtrips")
            parsed = E.parse_text_spectrum(text)
            if parsed is None or parsed[0] != shape or len(parsed[1]) != len(vals):
                S.viol("C07:text-format", "[%s] written text is not '#SHAPE=<..>' + one value line: %r" % (tag, text[:120]), wit)
                continue
            bad = None
            for j, (tok, x) in enumerate(zip(parsed[1], vals)):
                ok, why = token_ok(tok, x, prec)
                if not ok:
                    bad = (j, tok[:60], x, why)
                    break
            if bad:
                S.viol("C07:text-print", "[%s] value %r printed as %r: %s (index %d)" % (tag, bad[2], bad[1], bad[3], bad[0]), wit)
                continue
            if r.get("shape") != shape or "data" not in r:
                S.viol("C07:text-read", "[%s] the tool cannot read the text it wrote: %s" % (tag, str(r)[:200]), wit)
                continue
            for j, (tok, g) in enumerate(zip(parsed[1], r["data"])):
                gv = h2f(g)
                ev = float(tok)
                if not ((math.isnan(gv) and math.isnan(ev)) or gv == ev):
                    S.viol("C07:text-readback", "[%s] token %r read back as %r, float(token) = %r" % (tag, tok[:60], gv, ev), wit)
                    break
        S.case(key=digest([shape, bits, prec, what]), nontrivial=len(set(bits)) > 1)
        if ci == 2 and p["i"] == 0 and what == "text":
            S.sample({"level": "L", "shape": shape, "precision": prec, "values": vals[:6], "printed": parsed[1][:6], "read_back": [h2f(x) for x in r["data"][:6]]})


def check_C(S, p):
    seed = S.seed
    for i in range(p["c"]):
        rng = rng_for(seed, "c07", p["name"], "C", i)
        # a writer produces a spectrum file
        writer = rng.choice(["create", "view", "fold"])
        fmt = "text" if writer in ("create", "fold") else rng.choice(["text", "npy"])
        transport = rng.choice(["pipe", "file"])
        prec = rng.choice([0, 3, 6, 12])
        if writer == "create":
            cs = GC.random_callset(rng, nsamples=rng.choice([1, 2, 4]), nrecords=rng.choice([3, 20]), extras=False)
            smap = GC.random_sample_map(rng, cs.samples, npops=rng.randint(1, min(3, len(cs.samples))))
            proj = GC.random_project(rng, smap) if rng.random() < 0.5 else None
            w = E.cli_create(cs.to_vcf(), smap, project=proj, extra=(["--precision", str(prec)] if proj else []))
            produced = w.out
            transport = "pipe"
        else:
            shape = GS.random_shape(rng, 1, 4, 5)
            vkind = rng.choice(["int", "real", "dyadic", "ws-top-byte", "signed", "signed"])
            vals = GS.values(rng, O.prod(shape), vkind)
            if vkind == "signed":
                # negative values that print as a signed zero at the chosen precision (a residual, a centred spectrum), and -0.0 itself
                for _ in range(rng.randint(1, 3)):
                    vals[rng.randrange(len(vals))] = rng.choice([-0.0, -1e-9, -0.4, -0.0004, -3e-7, -0.25, 0.4, -1e-300])
            src = GS.text_spectrum(shape, vals, 6) if (rng.random() < 0.5 and vkind != "ws-top-byte") else GS.npy_bytes(shape, vals)
            if vkind == "ws-top-byte" and writer == "view":
                fmt = "npy"
            args = [writer, "--precision", str(prec)] + (["-O", fmt] if writer == "view" else [])
            if transport == "file":
                # the output path may be new, empty, or hold an earlier (longer) result that must be replaced completely
                pre = rng.choice(["empty", "absent", "longer-spectrum", "longer-garbage", "in-place"])
                import os
                stale = {"empty": b"", "absent": b"", "longer-spectrum": GS.text_spectrum(shape, vals, 17) + GS.text_spectrum(shape, vals, 17),
                         "longer-garbage": bytes(rng.randrange(256) for _ in range(300)) * (2 + len(src) // 100), "in-place": src}[pre]
                out = E.tmpfile(stale, ".out")
                if pre == "absent":
                    os.unlink(out)
                if pre == "in-place":
                    w = cli.sfs(args + ["-o", out, out])               # sfs view x.sfs -o x.sfs
                else:
                    w = cli.sfs(args + ["-o", out], stdin=src)
                produced = open(out, "rb").read() if os.path.exists(out) else b""
                S.observe("output_path_state", pre)
                if pre == "in-place" and w.rc != 0:
                    continue            # reading and writing one path in one invocation is not promised; if it succeeds the file must be right
                ref = cli.sfs(args, stdin=src)
                S.count("C_matrix_runs")
                if w.rc == 0 and (ref.rc != 0 or ref.out != produced):
                    S.viol("C07:file-vs-pipe", "[C %s -o FILE, path state %s] the file holds %d bytes %r..., the same command writes %d bytes to a pipe %r... (rc %s)" % (
                        " ".join(args), pre, len(produced), produced[-60:], len(ref.out), ref.out[-60:], ref.rc),
                        {"level": "C", "writer": w.argv, "path_state": pre, "input_b64": E.b64(src), "stale_b64": E.b64(stale[:4000]), "run": w.brief()})
                    continue
            else:
                w = cli.sfs(args, stdin=src)
                produced = w.out
        S.count("C_matrix_runs")
        S.observe("writer_format_transport", "%s/%s/%s" % (writer, fmt, transport))
        if writer != "create" and w.rc == 0 and i % 2 == 0:
            # -o FILE once more through the shared path-state monitor: neighbouring files untouched, two invocations at once
            from ..engines import outpath
            outpath.check_file_equals_pipe(S, "C07:file-vs-pipe", "C %s" % writer, rng, args, src)
        if writer != "create" and transport == "pipe" and w.rc == 0:
            # the same conversion as typed at a shell prompt: input named by path, stdin an idle terminal, stdout redirected
            wt = cli.sfs(args + [E.tmpfile(src, rng.choice([".in", ".npy", ".sfs", ".txt", ""]))], stdin_tty=True)
            S.count("C_matrix_runs")
            S.count("C_terminal_stdin_runs")
            if wt.rc != 0 or wt.out != produced:
                S.viol("C07:terminal-stdin", "[C %s <path> with a terminal on stdin, stdout redirected] rc %s, %d bytes, stderr %r; the same input on stdin gives %d bytes" % (
                    " ".join(args), wt.rc, len(wt.out), wt.err[:200], len(produced)), {"level": "C", "argv": wt.argv, "input_b64": E.b64(src), "stdin": "pseudo-terminal", "run": wt.brief()})
        wit = {"level": "C", "writer": w.argv, "produced_b64": E.b64(produced[:20000]), "run": w.brief()}
        if w.rc != 0 or not produced:
            S.viol("C07:writer-failed", "[C %s] writer failed: rc %s %r" % (writer, w.rc, w.err[:200]), wit)
            continue
        for reader in (["view", "--precision", "15"], ["fold"], ["stat", "-s", "sum"]):
            via = rng.choice(["stdin", "path", "dev-stdin", "fifo"])
            if via == "stdin":
                r = cli.sfs(reader, stdin=produced)
            elif via == "path":
                tty = rng.random() < 0.5
                # the name of a spectrum file is not part of the spectrum: text in `x.npy`, npy in `x.sfs` / `x.txt`, no extension
                r = cli.sfs(reader + [E.tmpfile(produced, rng.choice([".in", ".npy", ".sfs", ".txt", ".NPY", ""]))], stdin_tty=tty)
                if tty:
                    S.observe("reader_transport", "%s/path with a terminal on stdin" % reader[0])
            elif via == "dev-stdin":
                r = cli.sfs(reader + ["/dev/stdin"], stdin=produced)          # a pipe named by a path
            else:
                import os, threading
                fifo = E.tmpfile(b"", ".fifo")
                os.unlink(fifo)
                os.mkfifo(fifo)

                def feed():
                    try:
                        with open(fifo, "wb") as f:
                            f.write(produced)
                    except OSError:
                        pass
                th = threading.Thread(target=feed, daemon=True)
                th.start()
                r = cli.sfs(reader + [fifo])
                if th.is_alive():
                    try:                                   # the reader never opened the fifo: unblock the writer
                        fd = os.open(fifo, os.O_RDONLY | os.O_NONBLOCK)
                        os.close(fd)
                    except OSError:
                        pass
                th.join(timeout=5)
            S.count("C_matrix_runs")
            S.observe("reader_transport", "%s/%s" % (reader[0], via))
            if r.rc != 0 or not r.out:
                S.viol("C07:reader-rejects", "[C %s %s output (%s) -> %s via %s] the tool does not read what it wrote: rc %s stderr %r" % (
                    writer, fmt, transport, reader[0], via, r.rc, r.err[:200]), dict(wit, reader=r.argv))
        # text -> npy -> text at the same precision
        if fmt == "text":
            a = cli.sfs(["view", "-O", "npy"], stdin=produced)
            b = cli.sfs(["view", "--precision", str(prec if writer != "create" or True else 0)], stdin=a.out)
            S.count("C_matrix_runs", 2)
            S.count("C_text_npy_text")
            import re as _re
            S.count("C_text_npy_text_signed_zero_tokens", len(_re.findall(rb"(?<![0-9.])-0(?:\.0*)?(?![0-9.])", produced)))
            if writer == "create":
                # create prints with its own precision: recover it from the tokens
                toks = E.parse_text_spectrum(produced)[1]
                pp = len(toks[0].split(".")[1]) if "." in toks[0] else 0
                b = cli.sfs(["view", "--precision", str(pp)], stdin=a.out)
            digits_ok = all(len(t.replace("-", "").replace(".", "").lstrip("0")) <= 15 for t in E.parse_text_spectrum(produced)[1] if t not in ("NaN", "inf", "-inf"))
            if digits_ok and (a.rc != 0 or b.rc != 0 or b.out != produced):
                # "reproduces the text": byte for byte, the sign of a value printed as zero included (-0.00 stays -0.00)
                S.viol("C07:text-npy-text", "[C] text -> npy -> text does not reproduce the text: %r vs %r" % (b.out[:120], produced[:120]), wit)
        S.case(key=digest([produced.hex()[:3000], writer, fmt]), nontrivial=True)
        if i == 0 and p["i"] == 2:
            S.sample({"level": "C", "writer": w.argv, "format": fmt, "transport": transport, "produced_head": produced[:80].decode("latin1")})


def check_C_npy_stdout(S, p):
    """`view -O npy` to a PIPE for payloads of several KiB that contain every byte value (stdout is line buffered: a payload
    byte 0x0A must not cut the stream), read back by `view -O npy`: bit-identical."""
    import struct
    rng = rng_for(S.seed, "c07", p["name"], "npy-stdout")
    n = rng.choice([300, 700, 2000])
    vals = [rng.uniform(-1000, 1000) for _ in range(n)] + [3.25, 213000.0, 4106.0, 10.0]
    rng.shuffle(vals)
    shape = [len(vals)]
    src = GS.npy_bytes(shape, vals)
    a = cli.sfs(["view", "-O", "npy"], stdin=src)
    b = cli.sfs(["view", "-O", "npy"], stdin=a.out)
    S.count("C_matrix_runs", 2)
    S.count("C_npy_stdout_roundtrips")
    want = b"".join(struct.pack("<d", v) for v in vals)
    from .. import replay as R
    if a.rc != 0 or b.rc != 0 or not a.out.endswith(want) or not b.out.endswith(want) or a.out != b.out:
        S.viol("C07:npy-stdout", "[C view -O npy | view -O npy, %d values, payload contains 0x0A: %s] rc %s/%s, %d and %d bytes written, payload needs %d" % (
            len(vals), b"\n" in want, a.rc, b.rc, len(a.out), len(b.out), len(want)), {"level": "C", "input_b64": E.b64(src), "replay": R.exact(a, src[:len(src) - len(want)] + want) if False else R.same(a, b)})
    S.case(key=digest([GS.hexes(vals)[:50], "npy-stdout"]), nontrivial=True)


def check_C_million(S, p):
    """A spectrum with more than 2^20 entries (1025 x 1025: two populations of 512 diploids) written as text and read back: every
    token in its place. The first quarter holds values that are slow to format (hundreds of digits), the rest small ones - work
    split by position must be reassembled by position."""
    import numpy as np, io
    rng = rng_for(S.seed, "c07", p["name"], "million")
    shape = rng.choice([[1025, 1025], [1048577], [2, 524289]])
    n = shape[0] * (shape[1] if len(shape) > 1 else 1)
    vals = np.arange(n, dtype=np.float64) % 9973.0
    q = n // 4
    vals[:q] = 1e150 * (1.0 + (np.arange(q) % 7))
    if rng.random() < 0.5:
        vals = vals[::-1].copy()
    buf = io.BytesIO()
    np.save(buf, vals.reshape(shape))
    src = buf.getvalue()
    for rep in range(2):
        r = cli.sfs(["view", "--precision", "1"], stdin=src, timeout=300)
        S.count("C_matrix_runs")
        S.count("C_million_value_runs")
        wit = {"level": "C", "argv": r.argv, "shape": shape, "input": "npy; first (or last) quarter k -> 1e150 * (1 + k % 7), others k % 9973", "rc": r.rc, "stderr": r.err[:300].decode("latin1")}
        lines = r.out.split(b"\n")
        if r.rc != 0 or len(lines) != 3 or lines[0] != ("#SHAPE=<%s>" % "/".join(map(str, shape))).encode():
            S.viol("C07:million", "[C view --precision 1 on %r] rc %s, header %r, %d lines" % (shape, r.rc, lines[0][:60], len(lines)), wit)
            continue
        toks = lines[1].split(b" ")
        try:
            got = np.array([float(t) for t in toks])
        except ValueError as e_:
            S.viol("C07:million", "[C view --precision 1 on %r] a token is not a number: %s" % (shape, e_), wit)
            continue
        if len(got) != n or not np.array_equal(got, vals):
            bad = np.nonzero(got[:min(n, len(got))] != vals[:min(n, len(got))])[0]
            S.viol("C07:million", "[C view --precision 1 on %r] %d tokens for %d entries; %d differ, first at flat %s: printed %r, value %r" % (
                shape, len(got), n, len(bad), bad[:1], toks[int(bad[0])][:40] if len(bad) else None, float(vals[int(bad[0])]) if len(bad) else None), wit)
        S.case(key=digest(["million", shape, rep]), nontrivial=True)


def shard(S, p):
    if "replay" in p:
        S.inconc("witness carries the request / argv for manual replay")
        return
    if p["i"] % 16 == 5:
        check_C_million(S, p)
    check_L(S, p)
    check_C(S, p)
    check_C_npy_stdout(S, p)
