"""C05 - folding is mass-preserving, idempotent and symmetric under allele polarity.

L: Spectrum::fold().into_spectrum(fill) via harness op `spec`; oracle = the three-way rule of the
statement (vf.oracle.spectrum.fold) on integer/dyadic data, exact. C: `sfs fold --fill ...`.
"""
import math
from fractions import Fraction
from .. import harness, cli
from ..common import rng_for, h2f, f2h, digest
from ..engines import create as E
from ..gen import spectra as GS
from ..oracle import spectrum as O

LEVEL = "exploration"
NEEDS = ["harness", "cli"]
RULE = ("L: ALL shapes with 1-3 axes and lengths 1-7 plus a seeded sample (quick) / all (thorough) 4-axis shapes with lengths 1-7, plus spectra beyond 2^16 entries / total allele count (70001, 131073, 300x300, 2x65537, 41^3, ...), "
        "each with random signed-integer/dyadic vectors and all four fills {nan, 0, -1, inf}; laws with fill 0: mass, "
        "fold(fold(x)) == fold(x), fold(mirror(x)) == fold(x); random doubles with a 1-ulp allowance on the diagonal; special values "
        "(nan/inf cells). C: `sfs fold --fill` on text and npy input; `-o FILE` with the path absent / empty / holding a longer earlier result / longer garbage / being the input must leave the bytes a pipe receives. Non-trivial: >=2 entries and non-constant data; distinct = "
        "digest(shape, data, fill).")
ASSUMPTIONS = ["dyadic data with few bits: sums and halves are exact in f64, so equality is exact",
               "never ramps only: ramps are mirror-antisymmetric and would hide partner mistakes"]
FLOORS = {"quick": {"evaluations": 4000, "distinct_nontrivial": 3000, "counts": {"L_folds": 4000, "C_runs": 90, "L_big_spectra": 4}},
          "thorough": {"evaluations": 60000, "distinct_nontrivial": 50000, "counts": {"L_folds": 60000, "C_runs": 2500}}}
NSHARD = 32
FILLS = {"nan": float("nan"), "zero": 0.0, "minus-one": -1.0, "inf": float("inf")}
NAN_BITS = "7ff8000000000000"


def shapes_for(tier, seed):
    base = list(GS.all_shapes(3, 7))
    four = [s for s in GS.all_shapes(4, 7) if len(s) == 4]
    if tier == "quick":
        rng = rng_for(seed, "c05-shapes")
        four = rng.sample(four, 320)
    return base + four


def plan(tier, seed):
    shapes = shapes_for(tier, seed)
    # all axis orders of one shape go to the same shard (2x3 with 3x2, 2x2x5 with 5x2x2, ...): the audit pass answers requests of equal
    # size next to each other within one process, so layouts that differ only in the order of their axes meet back to back
    groups = {}
    for sh in shapes:
        groups.setdefault(tuple(sorted(sh)), []).append(sh)
    keys = sorted(groups, key=lambda k: (-O.prod(k), k))
    per = [[] for _ in range(NSHARD)]
    load = [0] * NSHARD
    for k in keys:
        j = load.index(min(load))
        per[j].extend(groups[k])
        load[j] += O.prod(k) * len(groups[k])
    reps = 2 if tier == "quick" else 48
    plans = [{"name": "s%d" % i, "i": i, "shapes": per[i], "reps": reps, "c": 4 if tier == "quick" else 300} for i in range(NSHARD)]
    # beyond the grid: spectra whose total allele count or number of entries exceeds 2^16 (very large single samples, two large populations)
    big = [[70001], [300, 300], [65537], [131073], [2, 65537], [41, 41, 41], [65536], [257, 257]]
    for k, shape in enumerate(big if tier != "quick" else big[seed % 2::2]):
        plans[(k * 5 + seed) % NSHARD]["shapes"] = plans[(k * 5 + seed) % NSHARD]["shapes"] + [shape]
    return plans


def same(a_hex, expected):
    """Compare an observed f64 (hex bits) with an expected exact value (Fraction/int/float incl. nan/inf)."""
    a = h2f(a_hex)
    if isinstance(expected, float):
        if math.isnan(expected):
            return math.isnan(a)
        return a == expected
    return not math.isnan(a) and not math.isinf(a) and Fraction(a) == expected


def check_L(S, p):
    seed = S.seed
    cases = []
    if "replay" in p:
        cases = [p["replay"]["case"]]
    else:
        for si, shape in enumerate(p["shapes"]):
            n = O.prod(shape)
            for rep in range(p["reps"] if n < 60000 else (1 if n < 2 ** 17 else 6)):       # the largest ones repeatedly: work split over threads
                rng = rng_for(seed, "c05", p["name"], si, rep)
                kind = rng.choice(["signed", "dyadic", "int", "sparse", "real", "special"])
                if n >= 60000:
                    kind = rng.choice(["signed", "int"])
                    S.count("L_big_spectra")
                data = GS.values(rng, n, kind)
                for fname in FILLS:
                    cases.append({"shape": shape, "data": GS.hexes(data), "fill": fname, "kind": kind})
    reqs = [{"op": "spec", "do": "fold", "shape": c["shape"], "data": c["data"], "fill": f2h(FILLS[c["fill"]])} for c in cases]
    res = harness.run_all(reqs)
    law_reqs, law_owner = [], []
    for ci, (c, r) in enumerate(zip(cases, res)):
        shape, fill = c["shape"], FILLS[c["fill"]]
        data = [h2f(x) for x in c["data"]]
        tag = "shape %r fill %s kind %s" % (shape, c["fill"], c["kind"])
        wit = {"level": "L", "case": c}
        S.count("L_folds")
        if "data" not in r:
            S.viol("C05:panic", "[L %s] fold failed: %s" % (tag, str(r)[:300]), wit)
            continue
        if r["shape"] != shape:
            S.viol("C05:shape", "[L %s] result shape %r" % (tag, r["shape"]), wit)
            continue
        exact = c["kind"] in ("signed", "dyadic", "int", "sparse")
        if exact:
            exp = O.fold(shape, [Fraction(x) for x in data], fill)
            bad = [(i, h2f(g), str(e)) for i, (g, e) in enumerate(zip(r["data"], exp)) if not same(g, e)]
        else:
            # floating data: the exact rational value of the rule, allowing 2 ulp (one rounding per operation);
            # non-finite operands follow IEEE semantics
            bad = []
            ixs = O.indices(shape)
            pos = {ix: f for f, ix in enumerate(ixs)}
            T = sum(x - 1 for x in shape)
            MAXF = Fraction(1.7976931348623157e308)
            for i, ix in enumerate(ixs):
                gv = h2f(r["data"][i])
                s2 = 2 * sum(ix)
                a, b = data[i], data[pos[tuple(n - 1 - k for n, k in zip(shape, ix))]]
                if s2 > T:
                    okv = (math.isnan(fill) and math.isnan(gv)) or gv == fill
                    e = fill
                elif math.isfinite(a) and math.isfinite(b):
                    e = Fraction(a) + Fraction(b)
                    if s2 == T:
                        e = e / 2
                    if abs(e) > MAXF:
                        okv = math.isinf(gv) or abs(gv) == 1.7976931348623157e308
                    else:
                        okv = math.isfinite(gv) and abs(Fraction(gv) - e) <= 2 * Fraction(math.ulp(float(e)))
                else:
                    e = (a + b) if s2 < T else (0.5 * a + 0.5 * b)
                    okv = (math.isnan(e) and math.isnan(gv)) or gv == e
                if not okv:
                    bad.append((i, gv, str(e)))
        if bad:
            S.viol("C05:value", "[L %s] cells differ from the fold rule at (flat, got, expected) %r" % (tag, bad[:5]), wit)
        S.case(key=digest([shape, c["data"], c["fill"]]), nontrivial=O.prod(shape) >= 2 and len(set(c["data"])) > 1)
        if ci == 5 and p.get("i") == 0:
            S.sample({"level": "L", "shape": shape, "fill": c["fill"], "input": data[:16], "folded": [h2f(x) for x in r["data"]][:16]})
        # laws with fill zero on exact data
        if c["fill"] == "zero" and exact:
            total_in = sum(Fraction(x) for x in data)
            total_out = sum(Fraction(h2f(x)) for x in r["data"])
            S.count("L_mass_checks")
            if total_in != total_out:
                S.viol("C05:mass", "[L %s] total mass %s -> %s" % (tag, total_in, total_out), wit)
            law_reqs.append({"op": "spec", "do": "fold", "shape": shape, "data": r["data"], "fill": f2h(0.0)})
            law_owner.append(("idem", c, r))
            law_reqs.append({"op": "spec", "do": "fold", "shape": shape, "data": GS.hexes(O.mirror(shape, data)), "fill": f2h(0.0)})
            law_owner.append(("mirror", c, r))
    res2 = harness.run_all(law_reqs)
    for (law, c, r), r2 in zip(law_owner, res2):
        S.count("L_law_" + law)
        if r2.get("data") != r["data"]:
            # -0.0 vs 0.0 are the same number
            a = [h2f(x) for x in r2.get("data", [])]
            b = [h2f(x) for x in r["data"]]
            if a != b:
                S.viol("C05:law-" + law, "[L shape %r] %s: %r vs fold(x) %r" % (
                    c["shape"], "fold(fold(x))" if law == "idem" else "fold(mirror(x))", a[:10], b[:10]), {"level": "L", "case": c})


def check_C(S, p):
    seed = S.seed
    for i in range(p["c"]):
        rng = rng_for(seed, "c05", p["name"], "C", i)
        shape = GS.random_shape(rng, 1, 4, 7)
        data = GS.values(rng, O.prod(shape), rng.choice(["signed", "dyadic", "int"]))
        fname = rng.choice(list(FILLS))
        if i % 3 == 0 and fname in ("zero", "minus-one"):
            # input that already LOOKS folded: every entry above the fold line equals the fill value (sparse / unit spectra,
            # or the output of an earlier fold); the diagonal pairs are unequal, so folding must still average them
            T = sum(x - 1 for x in shape)
            data = [FILLS[fname] if 2 * sum(ix) > T else v for ix, v in zip(O.indices(shape), data)]
            S.count("C_already_folded_looking_inputs")
        as_npy = rng.random() < 0.5
        inp = GS.npy_bytes(shape, data) if as_npy else GS.text_spectrum(shape, data, 3)
        args = ["fold", "--precision", "4"] + ([] if fname == "nan" and rng.random() < 0.5 else ["--fill", fname])
        r = cli.sfs(args + [E.tmpfile(inp)]) if rng.random() < 0.5 else cli.sfs(args, stdin=inp)
        S.count("C_runs")
        wit = {"level": "C", "argv": r.argv, "input_b64": E.b64(inp), "shape": shape, "fill": fname, "run": r.brief()}
        parsed = E.parse_text_spectrum(r.out) if r.rc == 0 else None
        exp = O.fold(shape, [Fraction(x) for x in data], FILLS[fname])
        if parsed is None or parsed[0] != shape or len(parsed[1]) != len(exp):
            S.viol("C05:cli-output", "[C fold %s on %r] rc %s stdout %r stderr %r" % (fname, shape, r.rc, r.out[:200], r.err[:200]), wit)
        else:
            bad = []
            for j, (tok, e) in enumerate(zip(parsed[1], exp)):
                if isinstance(e, float):
                    ok = (tok == "NaN" and math.isnan(e)) or (tok == "inf" and e == math.inf) or (not math.isnan(e) and not math.isinf(e) and Fraction(tok) == Fraction(e))
                else:
                    try:
                        ok = Fraction(tok) == e
                    except (ValueError, ZeroDivisionError):
                        ok = False
                if not ok:
                    bad.append((j, tok, str(e)))
            if bad:
                S.viol("C05:cli-value", "[C fold --fill %s on %r] (flat, printed, expected) %r" % (fname, shape, bad[:5]), wit)
        if i % 2 == 0:
            from ..engines import outpath
            outpath.check_file_equals_pipe(S, "C05:file-vs-pipe", "C fold on %r" % shape, rng, args, inp)
        S.case(key=digest([shape, data, fname, "C"]), nontrivial=O.prod(shape) >= 2)
        if i == 0 and p.get("i") == 1:
            S.sample({"level": "C", "argv": r.argv, "input": inp[:200].decode("latin1"), "stdout": r.out.decode()[:300]})


def shard(S, p):
    check_L(S, p)
    if "replay" not in p:
        check_C(S, p)
