"""C19 - array, axis-view and iterator API invariants.

Observation point L: the public API of sfs_core::array, driven by harness op `array` on an array
filled with its own flat positions (negated at odd positions for about half of the shapes). Oracle: row-major enumeration computed here with
itertools.product - independent of the strides/shape code under test. Every individual call is
wrapped in catch_unwind by the harness; a recorded panic is a refuting event.
"""
import itertools
from .. import harness
from ..common import rng_for

LEVEL = "exploration"
NEEDS = ["harness", "harness:ovf"]
RULE = ("all shapes with 1..A axes and lengths 1..5 (A=4 quick, 5 thorough), plus 41x41x41 and 17x17x17x17 (more than 2^16 elements) seven shapes with 7-12 axes, and 2x(2^20+1) and 3x1025x1025 (sums of more than 2^20 cells, checked through exact digests), each on the release and the "
        "overflow-checked harness; per shape: iter_indices trace past exhaustion, iter_indices call histories mixing next() and nth(k) stepping past the end, get() on every valid index and on "
        "wrong-length/out-of-range indices, get_axis on every (axis, position) incl. axis d, d+1, usize::MAX and "
        "position len, len+1, usize::MAX, every view iterated 2*len+5 times with len() before each call, "
        "iter_axis traces, sum(axis); get_mut() on the same queries; the same array reached through clone, clone_from into targets of another shape, from_iter, new_unchecked, from_zeros + fill, from_element + iter_mut, IndexMut fill - each probed with get on every query, a sum and a view; call histories that end in a consuming std adaptor: k x next() (k in 0,1,2,3,len/2,len-1,len,len+1) followed by count / last / fold / for_each / collect / nth(1) / nth(c) for c at the top of the usize range / step_by(2) / skip(1).count() / size_hint on every view iterator, on iter_indices and on iter_axis. A shape is non-trivial when it has >= 2 elements; distinct = distinct (shape, build).")
ASSUMPTIONS = ["array contents are f64 flat positions < 2^53, so element identity is exact",
               "a panic is observed through catch_unwind in the harness (panic=unwind build)"]
EXHAUSTIVE = {"quick": True, "thorough": True}
FLOORS = {"quick": {"evaluations": 1000, "distinct_nontrivial": 700, "counts": {"views_iterated": 5000, "terminal_adaptor_calls": 200000, "history_probes": 10000, "get_mut_calls": 100000, "big_arrays": 4, "giant_arrays": 2}},
          "thorough": {"evaluations": 6000, "distinct_nontrivial": 6000, "counts": {"views_iterated": 50000, "terminal_adaptor_calls": 1000000}}}


def shapes(max_axes):
    out = []
    for d in range(1, max_axes + 1):
        out.extend(itertools.product(range(1, 6), repeat=d))
    return [list(s) for s in out]


def plan(tier, seed):
    amax = 4 if tier == "quick" else 5
    allshapes = shapes(amax)
    # big shapes first for balance
    allshapes.sort(key=lambda s: -_prod(s))
    nsh = 32
    plans = []
    for kind in ("release", "ovf"):
        for i in range(nsh):
            plans.append({"name": "%s-%d" % (kind, i), "kind": kind, "shapes": allshapes[i::nsh]})
        # beyond the exhaustive bound: two arrays with more than 2^16 elements (views, axis iteration, sums, indexing; no adaptor histories)
        plans.append({"name": "%s-big-a" % kind, "kind": kind, "shapes": [[41, 41, 41]], "big": True})
        plans.append({"name": "%s-big-b" % kind, "kind": kind, "shapes": [[17, 17, 17, 17]], "big": True})
        # and beyond five axes: 7 to 12 axes of length 1-2 (a fixed-size index or coordinate buffer somewhere would show here)
        plans.append({"name": "%s-many-axes" % kind, "kind": kind, "shapes": [[2] * 7, [2, 1, 2, 1, 2, 1, 2, 2], [2] * 9, [2] * 10, [1, 2] * 5 + [2], [2] * 12, [3, 2, 2, 2, 2, 2, 2, 2, 2, 3]],
                      "big": True})
    # ... and two whose sums have more than 2^20 cells (release build only; get() and sum() through a digest)
    plans.append({"name": "release-giant-a", "kind": "release", "shapes": [[2, 1048577]], "giant": True})
    plans.append({"name": "release-giant-b", "kind": "release", "shapes": [[3, 1025, 1025]], "giant": True, "signed_giant": True})
    return plans


def _prod(s):
    p = 1
    for v in s:
        p *= v
    return p


def get_queries(shape, rng):
    d = len(shape)
    q = [list(i) for i in itertools.product(*[range(n) for n in shape])]
    valid = len(q)
    # out of range on each axis
    for a in range(d):
        for bad in (shape[a], shape[a] + 1, 2 ** 40, 2 ** 64 - 1):
            idx = [rng.randrange(n) for n in shape]
            idx[a] = bad
            q.append(idx)
    # wrong lengths
    q.append([])
    q.append([0] * (d + 1))
    q.append([0] * (d + 2))
    if d > 1:
        q.append([0] * (d - 1))
        # a too-short index whose flat value would be in range
        q.append([rng.randrange(n) for n in shape[:-1]])
    return q, valid


def index_histories(shape, rng):
    """Call histories over iter_indices mixing next() and nth(k) (what skip/step_by/advance use), continued past the end."""
    n = _prod(shape)
    hs = []
    for ks in ([n], [n + 1], [n - 1] if n else [0], [0, n], [n // 2, n], [n + 5, 0], [1, 1, n], [2 * n + 3]):
        h = []
        for k in ks:
            h.append(["nth", k])
            h.append(["next"])
        h += [["next"], ["nth", 0], ["next"]]
        hs.append(h)
    for _ in range(3):
        h = []
        for _ in range(rng.randint(2, 8)):
            h.append(["nth", rng.choice([0, 1, 2, n // 3, n - 1 if n else 0, n, n + 1])] if rng.random() < 0.5 else ["next"])
        h += [["next"], ["next"]]
        hs.append(h)
    return hs


def check_histories(S, shape, res, kind, histories, bad, is_panic):
    n = _prod(shape)
    idxs = [list(i) for i in itertools.product(*[range(m) for m in shape])]
    for h, tr in zip(histories, res.get("index_histories", [])):
        S.count("index_histories")
        if is_panic(tr):
            bad("panic:index-history", "iter_indices history %r panicked: %s" % (h, tr["panic"]))
            continue
        pos = 0
        for (op, (ln, item)) in zip(h, tr):
            if is_panic(ln) or is_panic(item):
                bad("panic:index-history", "iter_indices history %r panicked at %r: %r %r" % (h, op, ln, item))
                break
            exp_len = max(0, n - pos)
            if op[0] == "nth":
                tgt = pos + op[1]
                exp_item = idxs[tgt] if tgt < n else None
                pos = min(n, tgt + 1)
            else:
                exp_item = idxs[pos] if pos < n else None
                pos = min(n, pos + 1)
            if ln != exp_len:
                bad("iter_indices:history-len", "iter_indices history %r: len() before %r was %r, expected %d" % (h, op, ln, exp_len))
                break
            if item != exp_item:
                bad("iter_indices:history-item", "iter_indices history %r: %r yielded %r, expected %r" % (h, op, item, exp_item))
                break


def check_terminals(S, what, terms, seq, bad, is_panic):
    """Histories ending in a consuming adaptor: after k calls of next() the iterator still owes seq[k:] - whichever std method drains it."""
    if terms is None:
        return
    for t in terms:
        k = t["k"]
        rem = seq[min(k, len(seq)):]
        exp = {"count": len(rem), "last": rem[-1] if rem else None, "fold": rem, "for_each": rem, "collect": rem,
               "nth1": rem[1] if len(rem) > 1 else None, "step2": rem[::2], "skip1_count": max(0, len(rem) - 1)}
        for name, e in exp.items():
            g = t.get(name)
            S.count("terminal_adaptor_calls")
            if is_panic(g):
                bad("panic:terminal:%s" % name, "%s: %d x next() then %s() panicked: %s" % (what, k, name, g["panic"]))
            elif g != e:
                bad("terminal:%s" % name, "%s: %d x next() then %s() gave %r, expected %r (the iterator still owes %r)" % (what, k, name, g, e, rem[:12]))
        nh = t.get("nth_huge")
        if nh is not None:
            S.count("terminal_adaptor_calls")
            if is_panic(nh):
                bad("panic:terminal:nth_huge", "%s: %d x next() then nth(~usize::MAX) panicked: %s" % (what, k, nh["panic"]))
            elif any(pair != [None, None] for pair in nh):
                bad("terminal:nth_huge", "%s: %d x next() then nth(c) for c in {MAX, MAX-1, MAX-2, MAX/2+1} followed by next() gave %r, expected None and None each time" % (what, k, nh))
        sh = t.get("size_hint")
        if is_panic(sh):
            bad("panic:terminal:size_hint", "%s: %d x next() then size_hint() panicked" % (what, k))
        elif sh[0] > len(rem) or (sh[1] is not None and sh[1] < len(rem)):
            bad("terminal:size_hint", "%s: %d x next() then size_hint() = %r but %d items remain" % (what, k, sh, len(rem)))


def check_shape(S, shape, res, kind, queries, nvalid, signed=False):
    tag = "%s %s%s" % ("x".join(map(str, shape)), kind, " signed" if signed else "")
    d = len(shape)
    n = _prod(shape)
    idxs = [list(i) for i in itertools.product(*[range(m) for m in shape])]
    # element at flat position f holds f (or -f at odd positions in the signed variant)
    flat_of = {tuple(ix): (-f if signed and f % 2 else f) for f, ix in enumerate(idxs)}
    wit = {"replay": {"shape": shape, "kind": kind, "signed": signed}}

    def bad(sig, what):
        S.viol("C19:%s" % sig, "[%s] %s" % (tag, what), wit)

    def is_panic(v):
        return isinstance(v, dict) and "panic" in v

    if "panic" in res or res.get("died"):
        bad("panic:array-op", "array op panicked/died: %s" % str(res)[:300])
        return
    if res.get("dimensions") != d or res.get("elements") != n:
        bad("dims", "dimensions/elements %r/%r != %d/%d" % (res.get("dimensions"), res.get("elements"), d, n))
    # 1. iter_indices
    tr = res["iter_indices"]
    if is_panic(tr):
        bad("panic:iter_indices", "iter_indices panicked: %s" % tr["panic"])
    else:
        for t, (ln, item) in enumerate(tr):
            exp_len = max(0, n - t)
            exp_item = idxs[t] if t < n else None
            if item != exp_item:
                bad("iter_indices:item", "iter_indices call %d yielded %r, expected %r" % (t, item, exp_item))
                break
            if ln != exp_len:
                bad("iter_indices:len", "iter_indices len() before call %d was %r, expected %d" % (t, ln, exp_len))
                break
        S.count("iter_indices_calls", len(tr))
    check_histories(S, shape, res, kind, res.get("_histories", []), bad, is_panic)
    # 2. get
    for qi, (q, r) in enumerate(zip(queries, res["get"])):
        if is_panic(r):
            bad("panic:get", "get(%r) panicked: %s" % (q, r["panic"]))
            continue
        exp = flat_of[tuple(q)] if qi < nvalid else None
        if r != exp:
            bad("get:value" if qi < nvalid else "get:invalid-not-none", "get(%r) = %r, expected %r" % (q, r, exp))
    S.count("get_calls", len(queries))
    # 2b. get_mut answers like get
    for qi, (q, r) in enumerate(zip(queries, res.get("get_mut") or [])):
        S.count("get_mut_calls")
        if is_panic(r):
            bad("panic:get_mut", "get_mut(%r) panicked: %s" % (q, r["panic"]))
            continue
        exp = flat_of[tuple(q)] if qi < nvalid else None
        if r != exp:
            bad("get_mut:value" if qi < nvalid else "get_mut:invalid-not-none", "get_mut(%r) = %r, expected %r" % (q, r, exp))
    # 2c. the same array reached through other construction / copy histories
    hist = res.get("histories")
    if is_panic(hist):
        bad("panic:histories", "construction histories panicked: %s" % hist["panic"])
    elif hist:
        last = d - 1
        acc = {}
        for f, ix in enumerate(idxs):
            key = tuple(x for j, x in enumerate(ix) if j != last)
            acc[key] = acc.get(key, 0) + flat_of[tuple(ix)]
        rest = [m for j, m in enumerate(shape) if j != last]
        exp_probe = {"shape": shape, "data": [flat_of[tuple(ix)] for ix in idxs],
                     "get": [flat_of[tuple(q)] if qi < nvalid else None for qi, q in enumerate(queries)],
                     "sum_last": {"shape": rest, "data": [acc[k] for k in itertools.product(*[range(m) for m in rest])]} if d > 1 else None,
                     "view0_last": [flat_of[tuple(ix)] for ix in idxs if ix[0] == shape[0] - 1]}
        for name, pr in hist.items():
            S.count("history_probes")
            if is_panic(pr):
                bad("panic:history:%s" % name, "array obtained via %s: probing it panicked: %s" % (name, pr["panic"]))
                continue
            if "err" in pr:
                bad("history:%s" % name, "array obtained via %s: construction failed: %s" % (name, pr["err"]))
                continue
            for key, e in exp_probe.items():
                if key == "sum_last" and d == 1:
                    continue
                gval = pr.get(key)
                if is_panic(gval):
                    bad("panic:history:%s:%s" % (name, key), "array obtained via %s: %s panicked: %s" % (name, key, gval["panic"]))
                elif gval != e:
                    diff = next(((k_, a_, b_) for k_, (a_, b_) in enumerate(zip(gval, e)) if a_ != b_), None) if isinstance(gval, list) and isinstance(e, list) and len(gval) == len(e) else None
                    bad("history:%s:%s" % (name, key), "array obtained via %s answers differently: %s = %s, expected %s%s" % (
                        name, key, str(gval)[:120], str(e)[:120], (" (first difference at %d: %r vs %r; query %r)" % (diff[0], diff[1], diff[2], queries[diff[0]] if key == "get" else None)) if diff else ""))
    # 3. views
    for v in res["views"]:
        a, i, r = v["axis"], v["pos"], v["r"]
        valid = isinstance(a, int) and a < d and isinstance(i, int) and i < shape[a]
        if is_panic(r):
            bad("panic:get_axis" + ("" if valid else ":invalid"), "get_axis(axis=%r, pos=%r) panicked: %s" % (a, i, r["panic"]))
            continue
        if not valid:
            if r is not None:
                bad("get_axis:invalid-not-none", "get_axis(axis=%r, pos=%r) returned a view" % (a, i))
            S.count("invalid_axis_requests")
            continue
        if r is None:
            bad("get_axis:none", "get_axis(axis=%d, pos=%d) returned None" % (a, i))
            continue
        exp = [flat_of[tuple(ix)] for ix in idxs if ix[a] == i]
        if r["dims"] != d - 1:
            bad("view:dims", "view(axis=%d,pos=%d).dimensions() = %r" % (a, i, r["dims"]))
        tr = r["trace"]
        S.count("views_iterated")
        if is_panic(tr):
            bad("panic:view-iter", "view(axis=%d,pos=%d) iteration panicked: %s" % (a, i, tr["panic"]))
        else:
            for t, (ln, item) in enumerate(tr):
                exp_item = exp[t] if t < len(exp) else None
                exp_len = max(0, len(exp) - t)
                if is_panic(item):
                    bad("panic:view-next", "view(axis=%d,pos=%d) next() call %d panicked: %s" % (a, i, t, item["panic"]))
                    break
                if item != exp_item:
                    bad("view:item" if t < len(exp) else "view:not-fused",
                        "view(axis=%d,pos=%d) next() call %d yielded %r, expected %r (sequence %r)" % (a, i, t, item, exp_item, exp))
                    break
                if is_panic(ln):
                    bad("panic:view-len", "view(axis=%d,pos=%d) len() before call %d panicked: %s" % (a, i, t, ln["panic"]))
                    break
                if ln != exp_len:
                    bad("view:len", "view(axis=%d,pos=%d) len() before call %d = %r, expected %d" % (a, i, t, ln, exp_len))
                    break
            S.count("view_next_calls", len(tr))
        check_terminals(S, "view(axis=%d,pos=%d).iter()" % (a, i), r.get("terminals"), exp, bad, is_panic)
        ta = r["to_array"]
        if is_panic(ta):
            bad("panic:to_array", "view.to_array panicked: %s" % ta["panic"])
        elif ta["data"] != exp or ta["shape"] != [m for j, m in enumerate(shape) if j != a]:
            bad("view:to_array", "view(axis=%d,pos=%d).to_array() = %r" % (a, i, ta))
    # 4. iter_axis
    for v in res["iter_axis"]:
        a, tr = v["axis"], v["trace"]
        if is_panic(tr):
            bad("panic:iter_axis", "iter_axis(%d) panicked: %s" % (a, tr["panic"]))
            continue
        la = shape[a] if a < d else 0
        for t, (ln, item) in enumerate(tr):
            if is_panic(item) or is_panic(ln):
                bad("panic:iter_axis-step", "iter_axis(%d) call %d panicked: %r %r" % (a, t, ln, item))
                break
            exp_item = [flat_of[tuple(ix)] for ix in idxs if ix[a] == t] if t < la else None
            exp_len = max(0, la - t)
            if item != exp_item:
                bad("iter_axis:item", "iter_axis(%d) call %d yielded %r, expected %r" % (a, t, item, exp_item))
                break
            if ln != exp_len:
                bad("iter_axis:len", "iter_axis(%d) len() before call %d = %r, expected %d" % (a, t, ln, exp_len))
                break
        S.count("iter_axis_calls", len(tr))
    check_terminals(S, "iter_indices()", res.get("index_terminals"), idxs, bad, is_panic)
    for a, terms in enumerate(res.get("axis_terminals") or []):
        check_terminals(S, "iter_axis(%d)" % a, terms, [[flat_of[tuple(ix)] for ix in idxs if ix[a] == t] for t in range(shape[a])], bad, is_panic)
    # 5. sum
    for v in res["sum"]:
        a, r = v["axis"], v["r"]
        if is_panic(r):
            if d == 1:
                # summing away the only axis is outside the property's domain (no remaining axes)
                S.count("sum_of_only_axis_panicked")
                continue
            bad("panic:sum", "sum(axis=%d) panicked: %s" % (a, r["panic"]))
            continue
        rest = [m for j, m in enumerate(shape) if j != a]
        acc = {}
        for f, ix in enumerate(idxs):
            key = tuple(x for j, x in enumerate(ix) if j != a)
            acc[key] = acc.get(key, 0) + flat_of[tuple(ix)]
        exp = [acc[k] for k in itertools.product(*[range(m) for m in rest])]
        if r["shape"] != rest or r["data"] != exp:
            bad("sum:value", "sum(axis=%d) = %r, expected shape %r data %r" % (a, r, rest, exp))
        S.count("sum_calls")


def check_giant(S, p):
    """Arrays whose SUMS have more than 2^20 cells (2 x (2^20+1), 3 x 1025 x 1025): sum along every axis, verified through an exact digest
    (length, plain and position-weighted totals, head, tail) computed independently with numpy, plus get() at sampled indices."""
    import numpy as np
    rng = rng_for(0, "c19", p["name"], "giant")
    for shape in p["shapes"]:
        n = _prod(shape)
        idx = np.arange(n, dtype=np.int64)
        vals = np.where(idx % 2 == 1, -idx, idx) if p.get("signed_giant") else idx
        arr = vals.reshape(shape)
        queries = [[int(rng.randrange(m)) for m in shape] for _ in range(200)] + [[m - 1 for m in shape], [0] * len(shape)]
        res = harness.run_all([{"op": "array", "shape": shape, "get": queries, "light": True, "signed": bool(p.get("signed_giant"))}], kind=p["kind"], timeout=900, _audit=False)[0]
        S.count("giant_arrays")
        tag = "%s %s (giant)" % ("x".join(map(str, shape)), p["kind"])
        wit = {"replay": {"shape": shape, "kind": p["kind"], "giant": True}}
        if "panic" in res or res.get("died") or "sum_digest" not in res:
            S.viol("C19:panic:array-op", "[%s] %s" % (tag, str(res)[:300]), wit)
            continue
        for q, g_ in zip(queries, res["get"]):
            if g_ != int(arr[tuple(q)]):
                S.viol("C19:get:value", "[%s] get(%r) = %r, expected %d" % (tag, q, g_, int(arr[tuple(q)])), wit)
                break
        for v in res["sum_digest"]:
            a, r = v["axis"], v["r"]
            if isinstance(r, dict) and "panic" in r:
                S.viol("C19:panic:sum", "[%s] sum(axis=%d) panicked: %s" % (tag, a, r["panic"]), wit)
                continue
            e = arr.sum(axis=a).reshape(-1)
            w = (np.arange(len(e), dtype=np.int64) % 1000003) + 1
            t0 = int(sum(int(x) for x in e)) if len(e) < 10 else int(e.astype(object).sum())
            t1 = int((e.astype(object) * w.astype(object)).sum())
            exp = {"shape": [m for j, m in enumerate(shape) if j != a], "len": len(e), "t0": str(t0), "t1": str(t1), "head": [int(x) for x in e[:8]], "tail": [int(x) for x in e[::-1][:8]]}
            S.count("sum_calls")
            if r != exp:
                S.viol("C19:sum:value", "[%s] sum(axis=%d) digest %r, expected %r" % (tag, a, {k_: r.get(k_) for k_ in ("shape", "len", "t0", "t1", "head")}, {k_: exp[k_] for k_ in ("shape", "len", "t0", "t1", "head")}), wit)
        S.case(key="%s|%s|giant" % (shape, p["kind"]), nontrivial=True)


def shard(S, p):
    if p.get("giant"):
        return check_giant(S, p)
    if "replay" in p and p["replay"].get("giant"):
        return check_giant(S, {"name": "replay", "kind": p["replay"]["kind"], "shapes": [p["replay"]["shape"]]})
    if "replay" in p:
        w = p["replay"]
        p = {"kind": w["kind"], "shapes": [w["shape"]], "name": "replay", "signed": w.get("signed", False)}
    rng = rng_for(0, "c19", p["name"])  # query padding is seed independent: the space is enumerated
    reqs, metas = [], []
    for shape in p["shapes"]:
        q, nv = get_queries(shape, rng)
        hs = index_histories(shape, rng)
        sg = p.get("signed", (sum(shape) + len(shape)) % 2 == 1)       # about half of the shapes hold mixed-sign data
        big = bool(p.get("big"))
        reqs.append({"op": "array", "shape": shape, "get": q, "extra": 3, "index_histories": hs, "signed": sg, "terminals": not big, "histories": not big})
        if big:
            S.count("big_arrays")
        metas.append((q, nv, hs, sg))
    results = harness.run_all(reqs, kind=p["kind"])
    for shape, res, (q, nv, hs, sg) in zip(p["shapes"], results, metas):
        res["_histories"] = hs
        check_shape(S, shape, res, p["kind"], q, nv, signed=sg)
        S.count("signed_arrays" if sg else "unsigned_arrays")
        S.case(key="%s|%s" % (shape, p["kind"]), nontrivial=_prod(shape) >= 2)
        if shape in ([2, 3], [3, 1, 2]) and p["kind"] == "release":
            S.sample({"shape": shape, "build": p["kind"], "iter_indices_trace": res.get("iter_indices"),
                      "first_view": res.get("views", [None])[0]})
