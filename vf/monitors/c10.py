"""C10 - every record is counted once or reported skipped; strict mode; no partial output.

Conservation / exactly-once monitor over the program's OWN event log (stderr of `create -v`): the set of
'Skipping site' lines and the 'Skipped X/Y' summary are checked against the reference, together with the
mass of stdout. Fault enumeration: a failing record (ploidy error in a selected sample, malformed VCF
line, truncated BCF record, BGZF block with a bad CRC) is placed at EVERY position of the record stream.
"""
import math, struct
from fractions import Fraction
from .. import harness, cli
from ..common import rng_for, h2f, digest
from ..engines import create as E
from ..gen import callsets as G, vcfgen
from ..gen.vcfgen import CallSet, Record, gt
from ..oracle.callset import reference_create

LEVEL = "fault_enumeration"
NEEDS = ["harness", "cli"]
RULE = ("(A) random call sets with missing/multiallelic genotypes x maps, with and without projection: mass(stdout) + X == R and Y == R for the "
        "summary 'Skipped X/Y', the multiset of 'Skipping site c:p' lines (-v) == the reference's skipped records (each exactly once), no summary "
        "when nothing is skipped; --strict (combined with -q / -qq / -v / -vv / none) fails at the FIRST would-be-skipped record naming it and otherwise prints identical output; L1: every "
        "counted record's contribution sums to 1 (1e-9), incl. cohorts of 86-220 samples and of 500-1200 samples projected to about half (the band where the binomial coefficients leave the f64 range one after the other). Two call sets per shard also as ordinary gzip in one and in two members (refused, or read completely). One run per shard projects to thousands of cells with -t 2..8. (B) for streams of R records (R<=12 quick, <=40 thorough) a failing record at EVERY position "
        "0..R-1 x kind {ploidy error in a selected sample (4 containers), malformed VCF line (vcf, vcf.gz), BCF stream truncated inside record i "
        "(raw bcf, bgzf bcf), BGZF block i with a corrupted CRC (vcf.gz, bcf)}: exit != 0, empty stdout, diagnostic on stderr (naming contig:pos for "
        "ploidy errors). Non-trivial: a run with >=1 skipped and >=1 counted record, or any fault case; distinct = digest(input, argv).")
ASSUMPTIONS = ["stderr of `create -v` is the program's own event log: one line per skipped site",
               "a corrupt record only has to be diagnosed (exit != 0, empty stdout, non-empty stderr)"]
FLOORS = {"quick": {"evaluations": 900, "distinct_nontrivial": 600, "counts": {"A_runs": 250, "B_fault_runs": 500, "strict_runs": 100}},
          "thorough": {"evaluations": 20000, "distinct_nontrivial": 12000, "counts": {"A_runs": 8000, "B_fault_runs": 12000, "strict_runs": 3000}}}
NSHARD = 32
EXHAUSTIVE = {}


def plan(tier, seed):
    q = tier == "quick"
    return [{"name": "s%d" % i, "i": i, "a": 9 if q else 800, "b_streams": 1 if q else 10, "rmax": 12 if q else 40, "l1": 30 if q else 2000} for i in range(NSHARD)]


def mass(tokens):
    return sum(Fraction(t) for t in tokens)


def check_A(S, p):
    seed = S.seed
    for i in range(p["a"]):
        labels = [p["name"], "A", i]
        rng = rng_for(seed, "c10", *labels)
        cs = G.random_callset(rng, nsamples=rng.choice([1, 2, 3, 5, 8, 12]), nrecords=rng.choice([0, 1, 2, 5, 12, 40, 100, 100, 1023, 1024, 1025, 2048]) if i else [1024, 2048, 512, 4096][p["i"] % 4],
                              p_missing=rng.choice([0.0, 0.05, 0.2, 0.5]), p_multi=rng.choice([0.0, 0.1]))
        smap = None if rng.random() < 0.2 else G.random_sample_map(rng, cs.samples)
        eff_map = smap if smap is not None else [(s, None) for s in cs.samples]
        project = G.random_project(rng, eff_map) if rng.random() < 0.5 else None
        wide_threads = []
        if i == 1:
            # a projected spectrum of thousands of cells (two populations of 33-40 samples) and several threads: every counted record
            # still weighs exactly one, records fixed for the ALT allele included (the last cell)
            na_, nb_ = rng.randint(33, 40), rng.randint(33, 40)
            cs = G.random_callset(rng, nsamples=na_ + nb_, nrecords=24, p_missing=rng.choice([0.0, 0.02]), p_multi=0.0, extras=False)
            for r_ in cs.records[:4]:
                r_.gts = [gt((1, 1)) for _ in r_.gts]
                r_.alts = r_.alts or ["C"]
            smap = [(s_, "A" if j < na_ else "B") for j, s_ in enumerate(cs.samples)]
            project = [rng.choice([64, 63, 2 * na_ - 2]), rng.choice([64, 65, 2 * nb_ - 2])]
            wide_threads = ["-t", str(rng.choice([2, 3, 4, 8]))]
            S.count("A_wide_target_runs")
        prec = rng.choice([3, 6, 10])
        container = rng.choice(E.CONTAINERS)
        data = E.encode(cs, container, rng)
        extra = ["-v"] + (["--precision", str(prec)] if project is not None else []) + wide_threads
        r = E.cli_create(data, smap, project=project, extra=extra, via=rng.choice(["stdin", "path"]))
        S.count("A_runs")
        exp = reference_create(cs, smap, project)
        R = len(cs.records)
        tag = "A %s %s target %r" % ("/".join(map(str, labels)), container, project)
        wit = {"labels": labels, "level": "C", "argv": r.argv, "input_b64": E.b64(data) if len(data) < 200000 else None, "run": r.brief(), "map": E.map_json(smap)}
        parsed = E.parse_text_spectrum(r.out) if r.rc == 0 else None
        if parsed is None:
            S.viol("C10:fail", "[%s] valid input failed: rc %s stderr %r" % (tag, r.rc, r.err[:300]), wit)
            continue
        sk, summary, _ = E.parse_stderr(r.err)
        X, Y = summary if summary else (0, R)
        m = mass(parsed[1])
        cells = len(parsed[1])
        tol = 0 if project is None else Fraction(cells, 2 * 10 ** prec) + Fraction(R, 10 ** 9)
        if abs(m + X - R) > tol or Y != R:
            S.viol("C10:conservation", "[%s] mass %s + skipped %d != records %d (summary %r)" % (tag, float(m), X, R, summary), wit)
        want = ["%s:%d" % cp for cp in exp.skipped]
        if sorted(sk) != sorted(want):
            dup = sorted({x for x in sk if sk.count(x) > 1})
            S.viol("C10:skip-log", "[%s] skip log %r... differs from the reference's skipped records %r... (reported twice: %r; missing: %r; extra: %r)" % (
                tag, sk[:5], want[:5], dup[:5], sorted(set(want) - set(sk))[:5], sorted(set(sk) - set(want))[:5]), wit)
        elif sk != want:
            S.viol("C10:skip-log-order", "[%s] skip log is not in input order" % tag, wit)
        if (summary is None) != (not want):
            S.viol("C10:summary", "[%s] summary line %r but %d records skipped" % (tag, summary, len(want)), wit)
        if i in (2, 3) and len(cs.records) >= 2:
            # the same text as ordinary (non-BGZF) gzip, in one member and in two (`cat a.vcf.gz b.vcf.gz`): the tool may refuse such input,
            # but if it reads it, every record of every member is counted or reported
            import gzip as _gz
            text = cs.to_vcf()
            lines_ = text.split(b"\n")
            nh_ = len([l_ for l_ in lines_ if l_.startswith(b"#")])
            cutl = nh_ + rng.randint(1, len(cs.records) - 1)
            part1 = b"\n".join(lines_[:cutl]) + b"\n"
            part2 = b"\n".join(lines_[cutl:])
            for gname, gdata in (("one gzip member", _gz.compress(text, mtime=0)), ("two gzip members", _gz.compress(part1, mtime=0) + _gz.compress(part2, mtime=0))):
                g = E.cli_create(gdata, smap, project=project, extra=extra, via="stdin" if i == 2 else "path")
                S.count("A_plain_gzip_runs")
                refused = g.rc != 0 and not g.out and g.err.strip() and not g.panicked
                if not refused and (g.rc != r.rc or g.out != r.out):
                    S.viol("C10:plain-gzip", "[%s as %s] neither refused nor read completely: rc %s stdout %r stderr %r; the plain text gives %r" % (
                        tag, gname, g.rc, g.out[:120], g.err[-200:], r.out[:120]), dict(wit, gzip_input_b64=E.b64(gdata[:100000])))
        S.case(key=digest([E.codes(cs), E.map_json(smap), project]), nontrivial=bool(exp.skipped) and exp.counted > 0)
        if i == 0 and p["i"] == 0:
            S.sample({"level": "C", "argv": r.argv, "stdout": r.out.decode()[:200], "stderr": r.err.decode()[:600], "reference_skipped": want[:10], "records": R})
        # strict mode (conflicts with projection)
        if project is None:
            # verbosity only decides what is logged, never whether --strict fails
            vflags = rng.choice([[], [], ["-q"], ["-qq"], ["--quiet"], ["-v"], ["-vv"], ["-q", "-q", "-q"]])
            st = E.cli_create(data, smap, extra=["--strict"] + vflags)
            S.count("strict_runs")
            S.observe("strict_with_verbosity", " ".join(vflags) or "(default)")
            if exp.skipped:
                first = "%s:%d" % exp.skipped[0]
                if st.rc == 0 or st.out or ("'%s'" % first).encode() not in st.err:
                    S.viol("C10:strict", "[%s] --strict must fail naming the first would-be-skipped record %s with empty stdout: rc %s stdout %r stderr %r" % (
                        tag, first, st.rc, st.out[:100], st.err[:300]), dict(wit, strict=st.brief(), replay=__import__("vf.replay", fromlist=["x"]).reject(st, first)))
                S.count("strict_failures_expected")
            elif st.rc != 0 or st.out != r.out:
                S.viol("C10:strict-differs", "[%s] nothing is skipped but --strict output differs: rc %s %r vs %r" % (tag, st.rc, st.out[:100], r.out[:100]), dict(wit, strict=st.brief(), replay=__import__("vf.replay", fromlist=["x"]).same(r, st)))


def check_L1_weights(S, p):
    seed = S.seed
    reqs, meta = [], []
    for i in range(p["l1"]):
        rng = rng_for(seed, "c10", p["name"], "L1", i)
        cs = G.random_callset(rng, nsamples=rng.choice([1, 2, 4, 7, 12, 30]), nrecords=rng.choice([5, 20, 60]), p_missing=rng.choice([0.05, 0.3]),
                              p_multi=rng.choice([0, 0.1]), extras=False)
        smap = G.random_sample_map(rng, cs.samples)
        project = G.random_project(rng, smap)
        reqs.append(E.l1_request(cs, smap, project))
        meta.append((cs, smap, project))
    # cohorts: more than 170 called chromosomes per population (a different code path serves factorials above 170!)
    for i in range(2):
        rng = rng_for(seed, "c10", p["name"], "L1cohort", i)
        ns = rng.randint(86, 220)
        cs = G.random_callset(rng, nsamples=ns, nrecords=6, p_missing=rng.choice([0.0, 0.05, 0.2]), p_multi=0, extras=False)
        smap = [(s_, None) for s_ in cs.samples]
        project = [min(2 * ns, rng.choice([170, 171, 172, 171, rng.randint(1, 2 * ns)]))]
        reqs.append(E.l1_request(cs, smap, project))
        meta.append((cs, smap, project))
        S.count("L1_cohorts")
    if p["i"] % 2 == 1:
        # 1000 and more called chromosomes, projected to about half, intermediate allele frequency: the binomial coefficients leave the
        # f64 range one after the other (C(N, N/2) first, from N = 1030; the numerator terms later) and hypergeometric tails underflow
        rng = rng_for(seed, "c10", p["name"], "L1big")
        ns = rng.choice([500, 508, 512, 515, 517, 519, 521, 523, 525, 527, 529, 531, 535, 540, 545, 600, 800, 1200])
        samples = ["s%d" % j for j in range(ns)]
        recs = []
        pm = rng.choice([0.0, 0.0, 0.004, 0.01])
        for ri, pf in enumerate([0.5, 0.45, 0.6, 0.02, 0.98, 0.5]):
            recs.append(Record("c1", 1 + ri, [gt((None, None), False) if rng.random() < pm else gt((1 if rng.random() < pf else 0, 1 if rng.random() < pf else 0), False) for _ in samples]))
        cs = CallSet(samples, [("c1", 10 ** 6)], recs)
        smap = [(s_, None) for s_ in samples]
        project = [rng.choice([ns, ns - 1, ns + 1, ns - 7, ns + 6, 2 * (ns // 4)])]
        reqs.append(E.l1_request(cs, smap, project))
        meta.append((cs, smap, project))
        S.count("L1_cohorts")
    for (cs, smap, project), r in zip(meta, harness.run_all(reqs)):
        if "events" not in r:
            S.viol("C10:L1-fail", "[L1] %s" % str(r)[:200], {"level": "L1", "map": E.map_json(smap), "project": project})
            continue
        for ri, ev in enumerate(r["events"]):
            if ev["k"] == "P":
                S.count("L1_weights")
                w = sum(Fraction(h2f(x)) if math.isfinite(h2f(x)) else Fraction(10 ** 9) for x in ev["v"])
                if abs(w - 1) > Fraction(1, 10 ** 9):
                    S.viol("C10:weight", "[L1 record %d codes %s target %r] counted record contributes total weight %s" % (ri, E.codes(cs)[ri], project, float(w)),
                           {"level": "L1", "map": E.map_json(smap), "project": project, "codes": E.codes(cs)})
        S.case(key=digest([E.codes(cs), E.map_json(smap), project, "L1"]), nontrivial=any(e["k"] == "P" for e in r["events"]))


# ------------------------------------------------------------------ (B) fault enumeration

def bgzf_per_record(head, recs):
    """One BGZF block for the header and one per record; returns (bytes, [offset of block of record i])."""
    blocks = [vcfgen.bgzf_block(head)] + [vcfgen.bgzf_block(r) for r in recs]
    offs, off = [], len(blocks[0])
    for b in blocks[1:]:
        offs.append(off)
        off += len(b)
    return blocks, offs


def fault_inputs(rng, cs, i, sel_col):
    """Yield (kind, container, bytes, expect_site_named) for a failure at record position i."""
    r = cs.records[i]
    # 1. ploidy error in a selected sample
    bad = list(r.gts)
    bad[sel_col] = rng.choice([gt((0,)), gt((1,)), gt((0, 1, 1)), gt((None, 0, 1), True), gt((1, 1, 0))])
    recs = list(cs.records)
    recs[i] = Record(r.contig, r.pos, bad, ref=r.ref, alts=r.alts)
    cs_bad = CallSet(cs.samples, cs.contigs, recs, info_defs=cs.info_defs, fmt_defs={'GT': ('1', 'String')}, filters=cs.filters)
    for container in E.CONTAINERS:
        yield "ploidy", container, E.encode(cs_bad, container, rng), "%s:%d" % (r.contig, r.pos)
    # 2. malformed VCF line
    text = cs.to_vcf().split(b"\n")
    nh = len([l for l in text if l.startswith(b"#")])
    line = text[nh + i].split(b"\t")
    how = rng.randrange(4)
    if how == 0:
        line[1] = b"x12"                       # POS not a number
    elif how == 1:
        line = line[:-1] if len(line) > 10 else line[:8]      # a sample column / FORMAT is missing
    elif how == 2:
        line[9] = b"0/x"                        # GT is not a genotype
    else:
        line[3] = b""                           # empty REF
    bad_text = text[:nh + i] + [b"\t".join(line)] + text[nh + i + 1:]
    data = b"\n".join(bad_text)
    yield "malformed-line-%d" % how, "vcf", data, None
    yield "malformed-line-%d" % how, "vcf.gz", vcfgen.bgzf(data, vcfgen.record_cuts_vcf(data)), None
    # 3. BCF stream truncated inside record i: (a) inside the record body / second length field, (b) inside the 4-byte l_shared prefix
    head, brecs = cs.bcf_records()
    for sub, cut in (("truncated-body", rng.randint(4, len(brecs[i]) - 1)), ("truncated-lenprefix", rng.randint(1, 3))):
        trunc = head + b"".join(brecs[:i]) + brecs[i][:cut]
        yield sub, "rawbcf", trunc, None
        yield sub, "bcf", vcfgen.bgzf(trunc, [len(head)]), None
    # 4. BGZF block holding record i has a corrupted CRC32
    for container in ("vcf.gz", "bcf"):
        if container == "bcf":
            blocks, _ = bgzf_per_record(head, brecs)
        else:
            lines = cs.to_vcf().split(b"\n")[:-1]
            hdr = b"\n".join(lines[:nh]) + b"\n"
            blocks, _ = bgzf_per_record(hdr, [l + b"\n" for l in lines[nh:]])
        b = bytearray(blocks[1 + i])
        b[-8 + rng.randrange(4)] ^= 1 << rng.randrange(8)
        blocks = blocks[:1 + i] + [bytes(b)] + blocks[2 + i:]
        yield "bad-crc", container, b"".join(blocks) + vcfgen.BGZF_EOF, None


def check_B(S, p):
    seed = S.seed
    for si in range(p["b_streams"]):
        rng = rng_for(seed, "c10", p["name"], "B", si)
        R = rng.randint(max(2, p["rmax"] // 2), p["rmax"])
        ns = rng.choice([2, 3, 5])
        cs = G.random_callset(rng, nsamples=ns, nrecords=R, p_missing=rng.choice([0.0, 0.2]), p_multi=0.0, extras=False)
        smap = G.random_sample_map(rng, cs.samples)
        sel_col = cs.samples.index(rng.choice(smap)[0])
        S.observe("stream_lengths", R)
        for i in range(R):
            for kind, container, data, site in fault_inputs(rng, cs, i, sel_col):
                for threads in ([1] if "gz" not in container and container != "bcf" else [1, 4]):
                    r = E.cli_create(data, smap, threads=threads, via="stdin" if (i + threads) % 2 else "path")
                    S.count("B_fault_runs")
                    S.count("B_%s" % (kind if kind.startswith("truncated") else kind.split("-")[0]))
                    S.observe("fault_positions", i)
                    from .. import replay as RP
                    wit = {"level": "C", "kind": kind, "position": i, "records": R, "container": container, "argv": r.argv, "input_b64": E.b64(data), "run": r.brief(),
                           "replay": RP.reject(r, site)}
                    tag = "B %s/%d %s at record %d/%d in %s -t %d" % (p["name"], si, kind, i, R, container, threads)
                    if r.panicked or r.signal:
                        from ..common import panic_sig
                        S.viol("C10:panic:%s" % panic_sig(r.err), "[%s] panicked/killed: rc %s stderr %r" % (tag, r.rc, r.err[:300]), wit)
                    elif r.timed_out:
                        S.inconc("timeout: " + tag)
                    elif r.rc == 0 or r.out or not r.err.strip():
                        S.viol("C10:fault-not-diagnosed:%s" % (kind if kind.startswith("truncated") else kind.split("-")[0]), "[%s] must exit non-zero with empty stdout and a diagnostic: rc %s stdout %r stderr %r" % (
                            tag, r.rc, r.out[:120], r.err[:200]), wit)
                    elif site and ("'%s'" % site).encode() not in r.err:
                        S.viol("C10:fault-site-not-named", "[%s] diagnostic does not name site %s: %r" % (tag, site, r.err[:300]), wit)
                    S.case(key=digest([data.hex()[:4000], len(data), threads, kind, i]), nontrivial=True)
                    if i == 1 and si == 0 and p["i"] == 0 and threads == 1 and kind in ("ploidy", "bad-crc") and container in ("vcf", "bcf"):
                        S.sample({"level": "C", "fault": kind, "position": i, "records": R, "container": container, "rc": r.rc, "stdout": r.out.decode()[:50], "stderr": r.err.decode()[:300]})


def shard(S, p):
    if "replay" in p:
        S.inconc("witness carries argv + input for manual replay")
        return
    check_A(S, p)
    check_L1_weights(S, p)
    check_B(S, p)
