"""C01 - create counts every complete site once at its per-population ALT index.

Observed at L1 (site::Reader over an in-memory genotype reader), L2 (real VCF/BCF parse through the
hook) and C (the binary). Oracle: vf.oracle.callset.reference_create - exact integers.
"""
import re
from .. import harness
from ..common import rng_for, digest
from ..engines import create as E
from ..gen import callsets as G
from ..gen.vcfgen import CallSet, Record, gt
from ..gen import vcfgen
from ..oracle.callset import reference_create, classify

LEVEL = "exploration"
NEEDS = ["harness", "cli"]
RULE = ("random call sets (1-40 samples, 0-200 records, 1-3 contigs, phased/unphased, missing/multiallelic/monomorphic/"
        "multi-ALT/all-missing records, extra INFO/FORMAT fields) x random sample->population maps (1-4 populations, any "
        "subset, named/unnamed) observed at L1, L2 (vcf, vcf.gz, bcf, raw bcf) and through the binary; every 4th case has a "
        "twin whose unselected columns are replaced by junk incl. haploid/triploid genotypes. One C case per shard uses a record count at/around a power of two (255..8192). Non-trivial: >=2 records, "
        ">=1 counted record with non-zero ALT count, and (>=1 skipped record or >=2 populations). distinct = digest of "
        "(records' genotype codes, map).")
ASSUMPTIONS = ["inputs are valid VCF 4.3 / BCF 2.2 produced by this project's encoders (self-tested against the repo fixtures)",
               "counts stay below 2^53 so f64 accumulation is exact"]
FLOORS = {"quick": {"evaluations": 3000, "distinct_nontrivial": 300, "counts": {"L1_cases": 1000, "L2_cases": 500, "C_runs": 150}},
          "thorough": {"evaluations": 100000, "distinct_nontrivial": 10000, "counts": {"L1_cases": 50000, "L2_cases": 10000, "C_runs": 3000}}}

SIZES = {"quick": (12000, 3000, 480), "thorough": (600000, 120000, 24000)}
NSHARD = 32
INT_RE = re.compile(r"^[0-9]+$")


def plan(tier, seed):
    n1, n2, nc = SIZES[tier]
    return [{"name": "s%d" % i, "l1": n1 // NSHARD, "l2": n2 // NSHARD, "c": nc // NSHARD} for i in range(NSHARD)]


def junk_twin(rng, cs, selected):
    """Same selected columns; every unselected column replaced by junk (incl. other ploidies)."""
    cols = [i for i, s in enumerate(cs.samples) if s not in selected]
    if not cols:
        return None
    recs = []
    for r in cs.records:
        gts = list(r.gts)
        maxa = len(r.alts)
        for c in cols:
            x = rng.random()
            if x < 0.35:
                a = G.wchoice(rng, [(t, w) for t, w in G.GT_JUNK_PLOIDY if max([y for y in t if y is not None] + [0]) <= max(1, maxa) or True])
                a = tuple(None if (y is not None and y > maxa) else y for y in a)
                gts[c] = (a, tuple(rng.random() < 0.5 for _ in a[1:]))
            elif x < 0.7:
                gts[c] = G.random_gt(rng, "missing", maxa)
            elif maxa >= 2:
                gts[c] = G.random_gt(rng, "multi", maxa)
            else:
                gts[c] = G.random_gt(rng, "complete", maxa)
        recs.append(Record(r.contig, r.pos, gts, ref=r.ref, alts=r.alts, id=r.id, qual=r.qual, filt=r.filt, info=r.info,
                           extra_fmt={}))
    fmt = {"GT": ("1", "String")}
    return CallSet(cs.samples, cs.contigs, recs, info_defs=cs.info_defs, fmt_defs=fmt, filters=cs.filters)


def gen(seed, labels, level):
    rng = rng_for(seed, "c01", *labels)
    big = rng.random() < 0.1
    cs = G.random_callset(rng, nsamples=None if not big else rng.choice([20, 40]),
                          nrecords=None if level != "C" else rng.choice([0, 1, 3, 8, 20, 60, 200]))
    smap = None if rng.random() < 0.15 else G.random_sample_map(rng, cs.samples)
    if smap is not None and rng.random() < 0.1:
        # the same sample listed twice in the same population counts once
        s, p = rng.choice(smap)
        smap.insert(rng.randrange(len(smap) + 1), (s, p))
        # keep first-appearance order of labels meaningful: nothing else to do
    twin = None
    if labels[-1] % 4 == 0 and smap is not None:
        twin = junk_twin(rng, cs, {s for s, _ in smap})
    container = rng.choice(E.CONTAINERS)
    layout_seed = rng.randrange(1 << 30)
    return {"cs": cs, "map": smap, "twin": twin, "container": container, "layout_seed": layout_seed, "labels": labels,
            "level": level, "via": rng.choice(["stdin", "path"]), "samples_via": rng.choice(["arg", "file"]),
            "threads": rng.choice([None, 1, 2, 4])}


def gen_wide(seed, labels):
    """A cohort of a few thousand sample columns (2050, 2051, 4097, 1025: not multiples of the usual block sizes), all selected, in
    one or two populations; ALT alleles and a missing genotype sit in the LAST columns of some records."""
    rng = rng_for(seed, "c01", *labels)
    n = rng.choice([2050, 2051, 4097, 1025, 2049])
    samples = ["w%04d" % j for j in range(n)]
    recs = []
    for ri in range(rng.choice([6, 9])):
        gts = [gt((0, 0))] * n
        style = ri % 3
        tail = list(range(n - rng.randint(1, 3), n))
        if style == 0:
            for j in tail:
                gts[j] = gt((1, 1), rng.random() < 0.5)
        elif style == 1:
            gts[rng.choice(tail)] = gt((None, None))          # the site must be skipped
        else:
            for j in rng.sample(range(n), 7) + tail[:1]:
                gts[j] = gt((0, 1))
        recs.append(Record("c1", 10 + ri, gts))
    cs = CallSet(samples, [("c1", 10 ** 6)], recs)
    cut = rng.choice([n, n - 2, n // 2])
    smap = [(s_, None) for s_ in samples] if cut == n else [(s_, "A" if j < cut else "B") for j, s_ in enumerate(samples)]
    if cut != n and 2 * cut + 1 > 3000 and 2 * (n - cut) + 1 > 3000:
        smap = [(s_, "A" if j < n - 2 else "B") for j, s_ in enumerate(samples)]     # keep the spectrum small: one big, one tiny population
    return {"cs": cs, "map": smap, "twin": None, "container": rng.choice(E.CONTAINERS), "layout_seed": rng.randrange(1 << 30), "labels": labels,
            "level": "C", "via": rng.choice(["stdin", "path"]), "samples_via": "file", "threads": rng.choice([None, 1, 2, 4, 3])}


def nontrivial(cs, smap, exp):
    if len(cs.records) < 2 or exp.cells is None:
        return False
    nz = any(v for i, v in enumerate(exp.cells) if i != 0)
    return bool(nz and (exp.skipped or len(exp.shape) >= 2))


def expect_cells(S, case, exp, shape, values, where, wit):
    lab = "/".join(map(str, case["labels"]))
    if shape != exp.shape:
        S.viol("C01:shape:%s" % where, "[%s %s] shape %r, expected %r" % (where, lab, shape, exp.shape), wit)
        return False
    if list(values) != [float(v) for v in exp.cells]:
        bad = [(i, v, e) for i, (v, e) in enumerate(zip(values, exp.cells)) if v != e][:5]
        S.viol("C01:count:%s" % where, "[%s %s] cells differ from reference count at (flat index, got, expected) %r; shape %r" % (where, lab, bad, shape), wit)
        return False
    return True


def witness(case, extra=None):
    w = {"labels": case["labels"], "level": case["level"], "map": E.map_json(case["map"]),
         "vcf": case["cs"].to_vcf().decode("utf-8", "replace")[:20000]}
    if extra:
        w.update(extra)
    return w


def run_level_L(S, seed, cases, level):
    reqs, owners = [], []
    for ci, case in enumerate(cases):
        for which in ("cs", "twin"):
            cs = case[which]
            if cs is None:
                continue
            if level == "L1":
                reqs.append(E.l1_request(cs, case["map"]))
            else:
                data = E.encode(cs, case["container"], rng_for(case["layout_seed"], which))
                reqs.append(E.l2_request(data, case["map"], threads=case["threads"] or 1))
            owners.append((ci, which))
    results = harness.run_all(reqs)
    by_case = {}
    for (ci, which), res in zip(owners, results):
        by_case.setdefault(ci, {})[which] = res
    for ci, case in enumerate(cases):
        cs, smap = case["cs"], case["map"]
        exp = reference_create(cs, smap)
        wit = witness(case)
        res = by_case[ci]["cs"]
        where = level if level == "L1" else "L2:" + case["container"]
        ok = True
        if "panic" in res or res.get("died") or "scs" not in res:
            S.viol("C01:fail:%s" % where, "[%s %s] no spectrum: %s" % (where, case["labels"], str({k: v for k, v in res.items() if k != "events"})[:400]), wit)
            ok = False
        else:
            shape, vals = E.scs_of(res["scs"])
            ok = expect_cells(S, case, exp, shape, vals, where, wit)
        if "twin" in by_case[ci] and ok:
            t = by_case[ci]["twin"]
            if t.get("scs") != res.get("scs"):
                S.viol("C01:unselected-influence:%s" % where, "[%s %s] junk in unselected columns changed the result: %s vs %s" % (
                    where, case["labels"], str(t.get("scs") or t)[:300], str(res.get("scs"))[:300]),
                    dict(wit, twin_vcf=case["twin"].to_vcf().decode()[:20000]))
            S.count("twin_comparisons")
        S.count(level + "_cases")
        if level == "L2":
            S.count("L2_" + case["container"])
        S.case(key=digest([E.codes(cs), E.map_json(smap)]), nontrivial=nontrivial(cs, smap, exp))
        if ci == 0 and case["labels"][0] == "s0" and case["labels"][-1] == 0:
            S.sample({"level": where, "samples": cs.samples, "map": E.map_json(smap), "first_records": E.codes(cs)[:6],
                      "expected_shape": exp.shape, "expected_cells": [int(x) for x in exp.cells][:30], "observed": res.get("scs", {}).get("data", [])[:6]})


def run_level_C(S, seed, cases):
    for ci, case in enumerate(cases):
        cs, smap = case["cs"], case["map"]
        exp = reference_create(cs, smap)
        outs = {}
        for which in ("cs", "twin"):
            c = case[which]
            if c is None:
                continue
            data = E.encode(c, case["container"], rng_for(case["layout_seed"], which))
            r = E.cli_create(data, smap, via=case["via"], samples_via=case["samples_via"], threads=case["threads"])
            outs[which] = (r, data)
        r, data = outs["cs"]
        where = "C:" + case["container"]
        wit = witness(case, {"argv": r.argv, "stdin_b64": E.b64(data) if len(data) < 200000 else None, "stdout": r.out[:2000].decode("utf-8", "replace"),
                             "stderr": r.err[:2000].decode("utf-8", "replace"), "rc": r.rc})
        S.count("C_runs")
        S.count("C_" + case["container"])
        from .. import replay as R
        if exp.cells is not None:
            wit["replay"] = R.exact(r, ("#SHAPE=<%s>\n%s\n" % ("/".join(map(str, exp.shape)), " ".join(str(int(x)) for x in exp.cells))).encode())
        ok = False
        if r.timed_out:
            S.inconc("timeout on %s" % case["labels"])
        elif r.rc != 0:
            S.viol("C01:fail:%s" % where, "[%s %s] exit %s: %s" % (where, case["labels"], r.rc, r.err[:300]), wit)
        else:
            parsed = E.parse_text_spectrum(r.out)
            if parsed is None:
                S.viol("C01:format:%s" % where, "[%s %s] stdout is not a two-line text spectrum: %r" % (where, case["labels"], r.out[:200]), wit)
            else:
                shape, toks = parsed
                notint = [t for t in toks if not INT_RE.match(t)]
                if notint:
                    S.viol("C01:not-integer:%s" % where, "[%s %s] value tokens are not exact integers: %r" % (where, case["labels"], notint[:5]), wit)
                else:
                    ok = expect_cells(S, case, exp, shape, [float(int(t)) for t in toks], where, wit)
        if "twin" in outs and ok:
            t, _ = outs["twin"]
            S.count("twin_comparisons")
            if t.out != r.out or t.rc != r.rc:
                S.viol("C01:unselected-influence:%s" % where, "[%s %s] junk in unselected columns changed the output: rc %s %r / %r" % (
                    where, case["labels"], t.rc, t.out[:200], t.err[:300]), dict(wit, twin_vcf=case["twin"].to_vcf().decode()[:20000], replay=R.same(t, r)))
        S.case(key=digest([E.codes(cs), E.map_json(smap)]), nontrivial=nontrivial(cs, smap, exp))
        if ci == 0 and case["labels"][0] == "s1" and case["labels"][-1] == 0:
            S.sample({"level": where, "argv": r.argv, "stdout": r.out[:300].decode("utf-8", "replace"), "expected_shape": exp.shape,
                      "expected_cells": [int(x) for x in exp.cells][:40]})


BOUNDARY_RECORDS = [255, 256, 257, 511, 512, 513, 1023, 1024, 1025, 2047, 2048, 2049, 4095, 4096, 4097, 8192]


def gen_boundary(seed, labels):
    """Record counts at and around powers of two (block-wise processing would slip exactly there)."""
    rng = rng_for(seed, "c01", *labels)
    n = BOUNDARY_RECORDS[labels[-1] % len(BOUNDARY_RECORDS)]
    cs = G.random_callset(rng, nsamples=rng.choice([1, 2, 3]), nrecords=n, p_missing=rng.choice([0.0, 0.05]), p_multi=0.0, extras=False)
    smap = None if rng.random() < 0.5 else G.random_sample_map(rng, cs.samples)
    return {"cs": cs, "map": smap, "twin": None, "container": rng.choice(E.CONTAINERS), "layout_seed": rng.randrange(1 << 30), "labels": labels,
            "level": "C", "via": rng.choice(["stdin", "path"]), "samples_via": "arg", "threads": rng.choice([None, 2]), "boundary": True}


def check_wordlike(S, p):
    """Every (word-like sample name) x (word-like population label) pair - names such as `sample`, `NA`, `id`, labels such as `[unnamed]`,
    `NA`, `null` - listed FIRST, next to an unlabelled sample and an ordinarily labelled one, through --samples and --samples-file: a name is
    a name and a label is a label, whatever they look like."""
    pairs = [(n_, l_) for n_ in G.WORDLIKE_NAMES for l_ in G.WORDLIKE_LABELS]
    idx = int(p["name"][1:])
    for k, (wname, wlabel) in enumerate(pairs):
        if k % NSHARD != idx:
            continue
        rng = rng_for(S.seed, "c01", "wordlike", wname, wlabel)
        samples = [wname, "s1", "s2", "s3"]
        rng.shuffle(samples)
        recs = [Record("c1", 5 + j, [gt((rng.randint(0, 1), rng.randint(0, 1))) for _ in samples]) for j in range(6)]
        cs = CallSet(samples, [("c1", 10 ** 6)], recs)
        smap = [(wname, wlabel), ("s1", None), ("s2", "A")]
        if k % 2:
            smap = [(wname, None), ("s1", wlabel), ("s2", "A")]
        exp = reference_create(cs, smap)
        want = ("#SHAPE=<%s>\n%s\n" % ("/".join(map(str, exp.shape)), " ".join(str(int(x)) for x in exp.cells))).encode()
        for via in ("arg", "file"):
            r = E.cli_create(cs.to_vcf(), smap, samples_via=via)
            S.count("C_runs")
            S.count("C_wordlike_runs")
            if r.rc != 0 or r.out != want:
                from .. import replay as R
                S.viol("C01:wordlike:%s" % via, "[C sample %r, label %r, list %r via %s] rc %s stdout %r stderr %r, expected %r" % (
                    wname, wlabel, E.map_json(smap), via, r.rc, r.out[:100], r.err[:160], want[:100]),
                    {"level": "C", "argv": r.argv, "map": E.map_json(smap), "vcf": cs.to_vcf().decode(), "run": r.brief(), "replay": R.exact(r, want)})
            S.case(key=digest(["wordlike", wname, wlabel, via]), nontrivial=True)


def check_bcf_sample_counts(S, p):
    """BCF lets every record declare its own number of samples. A record that declares fewer than the header names (0: a sites-only
    record; n-1: the last column missing) carries no genotype for some SELECTED sample: it must be refused, or contribute nothing
    (as a record with missing genotypes does) - never be counted from the samples that happen to be there."""
    import struct
    rng = rng_for(S.seed, "c01", p["name"], "bcf-n-sample")
    cs = G.random_callset(rng, nsamples=rng.choice([2, 3, 5]), nrecords=rng.choice([3, 6, 9]), p_missing=0.0, p_multi=0.0, extras=False, complete_only=True)
    smap = [(s_, rng.choice(["A", "B"])) for s_ in cs.samples] if rng.random() < 0.5 else [(s_, None) for s_ in cs.samples]
    if len({q for _, q in smap}) == 2 and smap[-1][1] != smap[0][1]:
        pass
    head, recs = cs.bcf_records()
    k = rng.randrange(len(recs))
    r = cs.records[k]
    l_shared, l_indiv = struct.unpack("<II", recs[k][:8])
    sites_only = bytearray(struct.pack("<II", l_shared, 0) + recs[k][8:8 + l_shared])
    sites_only[28:32] = struct.pack("<I", 0)
    tmp = CallSet(cs.samples[:-1], cs.contigs, [Record(r.contig, r.pos, r.gts[:-1], ref=r.ref, alts=r.alts, id=r.id, qual=r.qual, filt=r.filt)],
                  info_defs=cs.info_defs, fmt_defs=cs.fmt_defs, filters=cs.filters, version=cs.version)
    tmp.contig_perm = getattr(cs, "contig_perm", None)
    one_fewer = tmp.bcf_records()[1][0]
    # what the run may print if it accepts the file: the affected record treated like one with missing genotypes
    skipped = CallSet(cs.samples, cs.contigs, [rec if j != k else Record(rec.contig, rec.pos, [gt((None, None)) for _ in rec.gts], ref=rec.ref, alts=rec.alts)
                                                for j, rec in enumerate(cs.records)], fmt_defs=cs.fmt_defs, filters=cs.filters)
    exp = reference_create(skipped, smap)
    want = ("#SHAPE=<%s>\n%s\n" % ("/".join(map(str, exp.shape)), " ".join(str(int(x)) for x in exp.cells))).encode()
    for name, variant in (("no sample columns (n_sample = 0)", bytes(sites_only)), ("one sample column fewer than the header", one_fewer)):
        if len(cs.samples) < 2 and "fewer" in name:
            continue
        raw = head + b"".join(recs[:k]) + variant + b"".join(recs[k + 1:])
        for container, data in (("rawbcf", raw), ("bcf", vcfgen.bgzf(raw, [len(head)]))):
            rr = E.cli_create(data, smap)
            S.count("C_runs")
            S.count("C_bcf_short_records")
            refused = rr.rc != 0 and not rr.out and rr.err.strip() and not rr.panicked and not rr.signal
            if not refused and not (rr.rc == 0 and rr.out == want):
                from .. import replay as R
                S.viol("C01:bcf-short-record:%s" % container, "[C:%s record %d of %d with %s] neither refused nor treated as missing: rc %s stdout %r stderr %r; as missing it would print %r" % (
                    container, k, len(recs), name, rr.rc, rr.out[:120], rr.err[:200], want[:120]),
                    {"level": "C", "argv": rr.argv, "stdin_b64": E.b64(data), "map": E.map_json(smap), "run": rr.brief(), "replay": R.exact(rr, want) if rr.rc == 0 else None})
            S.case(key=digest([data.hex()[:4000], name]), nontrivial=True)


def shard(S, p):
    seed = S.seed
    if "replay" in p:
        w = p["replay"]
        case = gen_boundary(seed, w["labels"]) if "boundary" in w["labels"] else (gen_wide(seed, w["labels"]) if "wide" in w["labels"] else gen(seed, w["labels"], w["level"]))
        if w["level"] == "C":
            run_level_C(S, seed, [case])
        else:
            run_level_L(S, seed, [case], w["level"])
        return
    # in batches: a shard never holds more than a few hundred call sets in memory
    B = 400
    for lo in range(0, p["l1"], B):
        run_level_L(S, seed, [gen(seed, [p["name"], "L1", i], "L1") for i in range(lo, min(p["l1"], lo + B))], "L1")
    for lo in range(0, p["l2"], B):
        run_level_L(S, seed, [gen(seed, [p["name"], "L2", i], "L2") for i in range(lo, min(p["l2"], lo + B))], "L2")
    for lo in range(0, p["c"], B):
        run_level_C(S, seed, [gen(seed, [p["name"], "C", i], "C") for i in range(lo, min(p["c"], lo + B))])
    check_bcf_sample_counts(S, p)
    check_wordlike(S, p)
    idx = int(p["name"][1:])
    if idx % 4 == 2:
        run_level_C(S, seed, [gen_wide(seed, [p["name"], "wide", 0])])
        S.count("C_wide_cohorts")
    if idx < len(BOUNDARY_RECORDS):
        run_level_C(S, seed, [gen_boundary(seed, [p["name"], "boundary", idx])])
        S.count("C_boundary_record_counts")
