"""C03 - projection is exact hypergeometric down-sampling at every size; its laws hold.

L: utils::hypergeometric_pmf and Spectrum::project through the harness; oracle = exact pmf with
math.comb / Fractions. C: `sfs view --project-*` (errors, create|view --project == create --project).
"""
import itertools, math
from fractions import Fraction
from .. import harness, cli
from ..common import rng_for, h2f, f2h, digest
from ..engines import create as E
from ..gen import spectra as GS, callsets as GC
from ..oracle import spectrum as O
from ..oracle.hyper import hyp, project_exact

LEVEL = "exploration"
NEEDS = ["harness", "cli"]
RULE = ("(a) pmf grid: hypergeometric_pmf(N,K,n,k) for ALL 0<=K<=N, 0<=n<=N, 0<=k<=n with N<=Nmax (quick 26, thorough 48); "
        "(b) every N from Nmax+1 to 168 with seeded queries centred on n~N/2, k~mode, and large one-axis sizes N in {50,169..172,340,341,500,1000,1029,1030,1500,2000,3000,4000}: seeded (K,n,k) samples always including "
        "n in {1,N/2,N-1,N}, K in {0,1,N/2,N} and the mode k; (c) operator wiring: every unit vector of every shape in a grid (1-3 axes) "
        "projected to every admissible target; (c2) Spectrum::project of sparse one-/two-axis spectra between LARGE sizes (N up to 4000 chromosomes down to targets in the hundreds/thousands, mass at intermediate allele counts) vs big-integer reference; (c3) the same pmf queries and projections issued from 2-16 threads that start together in a fresh process (harness op `mt`), sizes above 170 chromosomes; (d) random signed/real spectra (1-4 axes) vs exact rational projection, and the laws mass, "
        "non-negativity, identity (exact), two-step == direct, commutes with marginalization; (e) inadmissible targets -> the stated error; "
        "(f) CLI view --project-shape/-individuals. Tolerance: relative 1e-9 of the exact coefficient (abs 1e-300), 1e-9*sum|x| for spectra (for signed / wide-magnitude / near-overflow data: per cell, 1e-9 of the sum of the absolute terms of that cell). "
        "Non-trivial: a coefficient strictly between 0 and 1 / a projection that really reduces a size; distinct = digest of the query.")
ASSUMPTIONS = ["exact reference: math.comb big integers and fractions.Fraction",
               "measured worst relative error of the real pmf is ~3e-12, so 1e-9 has a 300x margin while a wrong index/weight is off by >=1e-3"]
FLOORS = {"quick": {"evaluations": 50000, "distinct_nontrivial": 20000, "counts": {"pmf_grid": 40000, "pmf_large": 5000, "unit_vectors": 2000, "random_spectra": 300, "big_target_projections": 150, "concurrent_evaluations": 5000}},
          "thorough": {"evaluations": 1000000, "distinct_nontrivial": 300000, "counts": {"pmf_grid": 700000, "pmf_large": 100000, "unit_vectors": 20000, "random_spectra": 10000, "big_target_projections": 4000, "concurrent_evaluations": 100000}}}
NSHARD = 32
LARGE = [50, 169, 170, 171, 172, 340, 341, 500, 1000, 1029, 1030, 1500, 2000, 3000, 4000]
REL = 1e-9


def plan(tier, seed):
    nmax = 26 if tier == "quick" else 56
    per_large = 30 if tier == "quick" else 1500
    return [{"name": "s%d" % i, "i": i, "nmax": nmax, "per_large": per_large, "rand": 14 if tier == "quick" else 2500,
             "units": 1 if tier == "quick" else 10, "bigproj": 6 if tier == "quick" else 150, "mt": 3 if tier == "quick" else 40, "cli": 3 if tier == "quick" else 250} for i in range(NSHARD)]


def close(got, exact, scale=None):
    """|got - exact| within relative REL of exact (or of `scale`) plus a tiny absolute term."""
    if not math.isfinite(got):
        return False
    tol = REL * (abs(exact) if scale is None else scale) + Fraction(1, 10 ** 300)
    return abs(Fraction(got) - exact) <= tol


def check_pmf(S, p, queries, label):
    res = harness.run_all([{"op": "hyper", "q": queries}])[0]
    if "pmf" not in res:
        S.viol("C03:panic:pmf", "[pmf %s] batch failed: %s" % (label, str(res)[:300]), {"level": "L", "queries": queries[:50]})
        return
    for q, g in zip(queries, res["pmf"]):
        N, K, n, k = q
        S.count(label)
        e = hyp(k, N, K, n)
        wit = {"level": "L", "pmf_query": q}
        if isinstance(g, dict):
            S.viol("C03:panic:pmf", "[pmf N=%d K=%d n=%d k=%d] panicked: %s" % (N, K, n, k, g["panic"]), wit)
            continue
        gv = h2f(g)
        if not math.isfinite(gv):
            S.viol("C03:nonfinite:pmf", "[pmf N=%d K=%d n=%d k=%d] returned %r, exact %.6g" % (N, K, n, k, gv, float(e)), wit)
        elif not close(gv, e):
            S.viol("C03:coefficient", "[pmf N=%d K=%d n=%d k=%d] returned %.17g, exact %.17g" % (N, K, n, k, gv, float(e)), wit)
        S.case(key="p%d.%d.%d.%d" % (N, K, n, k) if N < 1000 else digest(q), nontrivial=0 < e < 1)


def grid_queries(nmax, i, nsh):
    qs = []
    for N in range(1, nmax + 1):
        if N % nsh != i % nsh and nmax > nsh:
            pass
        for K in range(N + 1):
            for n in range(N + 1):
                for k in range(n + 1):
                    qs.append([N, K, n, k])
    return qs


def large_queries(rng, N, count):
    qs = set()
    ns = [1, 2, N // 2, N - 1, N, N // 3, 2 * N // 3, 230, 163]
    Ks = [0, 1, N // 2, N, N - 1, N // 3, 171, 170]
    for n in ns:
        for K in Ks:
            if 0 <= n <= N and 0 <= K <= N:
                mode = ((n + 1) * (K + 1)) // (N + 2)
                for k in (0, 1, mode, mode + 1, max(0, mode - 1), min(n, K), max(0, n - (N - K))):
                    if 0 <= k <= n:
                        qs.add((N, K, n, k))
    while len(qs) < count + 100:
        n = rng.randint(0, N)
        K = rng.randint(0, N)
        lo, hi = max(0, n - (N - K)), min(n, K)
        mode = min(hi, max(lo, ((n + 1) * (K + 1)) // (N + 2)))
        k = rng.choice([mode, rng.randint(lo, hi), rng.randint(0, n), min(hi, mode + rng.randint(0, 40)), max(lo, mode - rng.randint(0, 40))])
        qs.add((N, K, n, k))
    return [list(q) for q in sorted(qs)]


def spec_req(shape, data, **kw):
    r = {"op": "spec", "shape": shape, "data": GS.hexes(data)}
    r.update(kw)
    return r


def check_units(S, p):
    """Operator wiring: e_k -> project(e_k) must be the product of per-axis pmfs at every target."""
    rng = rng_for(S.seed, "c03", p["name"], "units")
    shapes = []
    for _ in range(p["units"] * 6):
        d = rng.choice([1, 1, 2, 2, 3])
        mx = {1: 9, 2: 6, 3: 4}[d]
        shapes.append([rng.randint(1, mx) for _ in range(d)])
    reqs, meta = [], []
    for shape in shapes:
        n = O.prod(shape)
        targets = list(itertools.product(*[range(1, s + 1) for s in shape]))
        if len(targets) > 40:
            targets = rng.sample(targets, 40)
        for to in targets:
            for flat in range(n):
                data = [0.0] * n
                data[flat] = 1.0
                reqs.append(spec_req(shape, data, do="project", to=list(to)))
                meta.append((shape, list(to), flat))
    res = harness.run_all(reqs)
    for (shape, to, flat), r in zip(meta, res):
        S.count("unit_vectors")
        wit = {"level": "L", "unit": {"shape": shape, "to": to, "flat": flat}}
        if "data" not in r:
            S.viol("C03:panic:project", "[unit %r->%r e_%d] failed: %s" % (shape, to, flat, str(r)[:300]), wit)
            continue
        k = O.indices(shape)[flat]
        bad = []
        for j, kp in enumerate(O.indices(to)):
            e = Fraction(1)
            for ax in range(len(shape)):
                e *= hyp(kp[ax], shape[ax] - 1, k[ax], to[ax] - 1)
            g = h2f(r["data"][j])
            if not close(g, e):
                bad.append((kp, g, float(e)))
        if r["shape"] != to or bad:
            S.viol("C03:operator", "[unit %r->%r source index %r] (target index, got, exact) %r" % (shape, to, k, bad[:5]), wit)
        S.case(key=digest([shape, to, flat]), nontrivial=to != shape)


def check_big_targets(S, p):
    """Spectrum::project between LARGE axis sizes: N chromosomes down to a target m that is itself in the hundreds or thousands
    (the per-row pmf must stay exact when both binomial factors and the quotient leave the f64 range). Sparse sources keep the
    exact reference affordable: out[j] = sum_k x_k C(k,j) C(N-k,m-j) / C(N,m) in big integers."""
    from math import comb
    rng = rng_for(S.seed, "c03", p["name"], "bigtarget")
    cases = []
    for ci in range(p["bigproj"]):
        N = rng.choice(LARGE[1:] + [rng.randint(173, 4000), rng.randint(173, 1200), 2400, 2047, 2048])
        m = rng.choice([N, N - 1, N // 2, N // 2 + 1, int(0.47 * N), int(0.9 * N), min(N, 1000), min(N, 1001), min(N, 171), min(N, 1400), rng.randint(1, N), rng.randint(N // 2, N)])
        ks = {rng.choice([0, 1, 2, N // 2, N // 2 - 1, N // 2 + 1, N - 1, N, N // 3, (2 * N) // 3, rng.randint(0, N), rng.randint(0, N)]) for _ in range(rng.randint(2, 6))}
        ks.add(rng.choice([N // 2, rng.randint(N // 3, (2 * N) // 3)]))      # mass at intermediate allele counts
        second = rng.choice([None, None, 1, 2, 3])
        shape = [N + 1] if second is None else ([N + 1, second] if rng.random() < 0.5 else [second, N + 1])
        ax = shape.index(N + 1)
        n_ = O.prod(shape)
        data = [0.0] * n_
        src = {}
        for k in sorted(ks):
            o = rng.randrange(second) if second else 0
            v = float(rng.choice([1, 2, 7, 1000, 0.5, 1e-3, 123456789, rng.random() * 50]))
            if rng.random() < 0.15:
                v = -v
            flat = (k * second + o) if (second and ax == 0) else ((o * (N + 1) + k) if second else k)
            data[flat] = v
            src[(k, o)] = v
        to = list(shape)
        to[ax] = m + 1
        cases.append({"N": N, "m": m, "shape": shape, "to": to, "ax": ax, "src": src, "data": data, "second": second})
    res = harness.run_all([spec_req(c["shape"], c["data"], do="project", to=c["to"]) for c in cases])
    for c, r in zip(cases, res):
        N, m, ax, second = c["N"], c["m"], c["ax"], c["second"]
        S.count("big_target_projections")
        wit = {"level": "L", "big_target": {"shape": c["shape"], "to": c["to"], "nonzero": [[k, o, v] for (k, o), v in c["src"].items()]}}
        tag = "big %r->%r sources %r" % (c["shape"], c["to"], sorted(k for k, _ in c["src"]))
        if "data" not in r:
            S.viol("C03:panic:project", "[%s] project failed: %s" % (tag, str(r)[:300]), wit)
            continue
        den = comb(N, m)
        exact = {}
        for (k, o), v in c["src"].items():
            fv = Fraction(v)
            for j in range(max(0, m - (N - k)), min(m, k) + 1):
                exact[(j, o)] = exact.get((j, o), Fraction(0)) + fv * Fraction(comb(k, j) * comb(N - k, m - j), den)
        scale = sum(abs(Fraction(v)) for v in c["src"].values())
        got = [h2f(x) for x in r["data"]]
        bad = []
        w2 = second or 1
        for flat, g in enumerate(got):
            j, o = ((flat // w2, flat % w2) if ax == 0 else (flat % (m + 1), flat // (m + 1))) if second else (flat, 0)
            e = exact.get((j, o), Fraction(0))
            if not close(g, e, scale):
                bad.append((flat, g, float(e)))
        if r["shape"] != c["to"] or bad:
            S.viol("C03:value:big-target", "[%s] %d cell(s) off; first (flat, got, exact) %r; output mass %r of %r" % (
                tag, len(bad), bad[:4], sum(g for g in got if math.isfinite(g)), float(sum(Fraction(v) for v in c["src"].values()))), wit)
        S.case(key=digest(["big", c["shape"], c["to"], sorted(c["src"].items())]), nontrivial=m < N)


def check_concurrent(S, p):
    """The library used from several threads at once, each process fresh (harness op `mt`: jobs dealt to threads that start together
    behind a barrier): first uses of sizes above 170 chromosomes coincide, so anything the library shares between callers (tables,
    caches) is filled concurrently. Every coefficient and every projected cell must still be exact."""
    rng = rng_for(S.seed, "c03", p["name"], "mt")
    for rep in range(p["mt"]):
        threads = rng.choice([2, 4, 8, 16])
        jobs, metas = [], []
        for j in range(threads * 2):
            N = rng.choice([rng.randint(171, 400), rng.randint(171, 4000), rng.randint(171, 1100), 171 + j, 2000 - j])
            qs = large_queries(rng, N, 6)[:: max(1, len(large_queries(rng, N, 6)) // 24)][:24]
            if j % 3 == 2:
                m = rng.randint(N // 3, N)
                ks = sorted({rng.randint(0, N) for _ in range(3)})
                data = [0.0] * (N + 1)
                for k in ks:
                    data[k] = float(rng.randint(1, 9))
                jobs.append(spec_req([N + 1], data, do="project", to=[m + 1]))
                metas.append(("project", N, m, {k: data[k] for k in ks}))
            else:
                jobs.append({"op": "hyper", "q": qs})
                metas.append(("pmf", qs))
        res = harness.run_all([{"op": "mt", "threads": threads, "jobs": jobs}])[0]
        S.observe("concurrent_threads", threads)
        wit0 = {"level": "L", "concurrent": {"threads": threads, "jobs": [m_[:3] if m_[0] == "project" else ["pmf", m_[1][:3]] for m_ in metas]}}
        if "replies" not in res:
            S.viol("C03:panic:concurrent", "[mt %d threads] failed: %s" % (threads, str(res)[:300]), wit0)
            continue
        from math import comb
        for meta, r in zip(metas, res["replies"]):
            if meta[0] == "pmf":
                if not isinstance(r, dict) or "pmf" not in r:
                    S.viol("C03:panic:concurrent", "[mt pmf] %s" % str(r)[:300], wit0)
                    continue
                for q, g in zip(meta[1], r["pmf"]):
                    N, K, n, k = q
                    S.count("concurrent_evaluations")
                    e = hyp(k, N, K, n)
                    gv = h2f(g) if not isinstance(g, dict) else float("nan")
                    if not close(gv, e):
                        S.viol("C03:coefficient:concurrent", "[pmf N=%d K=%d n=%d k=%d evaluated while %d threads use the library] returned %.17g, exact %.17g" % (
                            N, K, n, k, threads, gv, float(e)), dict(wit0, pmf_query=q))
                        break
            else:
                _, N, m, src = meta
                S.count("concurrent_evaluations")
                if not isinstance(r, dict) or "data" not in r:
                    S.viol("C03:panic:concurrent", "[mt project] %s" % str(r)[:300], wit0)
                    continue
                den = comb(N, m)
                exact = {}
                for k, v in src.items():
                    for j in range(max(0, m - (N - k)), min(m, k) + 1):
                        exact[j] = exact.get(j, Fraction(0)) + Fraction(v) * Fraction(comb(k, j) * comb(N - k, m - j), den)
                scale = sum(Fraction(v) for v in src.values())
                bad = [(j, h2f(x), float(exact.get(j, 0))) for j, x in enumerate(r["data"]) if not close(h2f(x), exact.get(j, Fraction(0)), scale)]
                if bad:
                    S.viol("C03:value:concurrent", "[project [%d]->[%d] while %d threads use the library] (flat, got, exact) %r" % (N + 1, m + 1, threads, bad[:4]), wit0)
        S.case(key=digest(["mt", rep, p["name"], S.seed]), nontrivial=True)


def check_random(S, p):
    rng0 = rng_for(S.seed, "c03", p["name"], "rand")
    cases = []
    for i in range(p["rand"]):
        rng = rng_for(S.seed, "c03", p["name"], "rand", i)
        d = rng.choice([1, 1, 2, 2, 3, 4])
        mx = {1: 40, 2: 9, 3: 6, 4: 4}[d]
        shape = [rng.randint(1, mx) for _ in range(d)]
        kind = rng.choice(["int", "signed", "real", "positive", "sparse", "wide", "extreme"])
        data = GS.values(rng, O.prod(shape), kind)
        to = [rng.randint(1, s) for s in shape]
        mid = [rng.randint(t, s) for t, s in zip(to, shape)]
        cases.append({"shape": shape, "data": data, "to": to, "mid": mid, "kind": kind})
    # spectra with more than 4096 entries (counts not divisible by 4, 8, 16), mass concentrated in the last entries
    if p["i"] % 4 == 0:
        for shape in ([rng.choice([4097, 4099, 4101, 8191])], [65, 65], [17, 17, 15], [63, 67]):
            n_ = O.prod(shape)
            data = [0.0] * n_
            for k_ in list(range(n_ - 5, n_)) + [rng.randrange(n_) for _ in range(6)]:
                data[k_] = float(rng.randint(1, 9))
            to = [rng.randint(1, min(s_, 6)) for s_ in shape]
            cases.append({"shape": shape, "data": data, "to": to, "mid": [rng.randint(t, min(s_, t + 3)) for t, s_ in zip(to, shape)], "kind": "large-sparse"})
            S.count("large_spectra")
    reqs = []
    for c in cases:
        reqs.append(spec_req(c["shape"], c["data"], do="project", to=c["to"]))       # direct
        reqs.append(spec_req(c["shape"], c["data"], do="project", to=c["mid"]))      # first step
        reqs.append(spec_req(c["shape"], c["data"], do="project", to=c["shape"]))    # identity
    res = harness.run_all(reqs)
    step2, owners = [], []
    for ci, c in enumerate(cases):
        direct, first, ident = res[3 * ci:3 * ci + 3]
        shape, data, to = c["shape"], c["data"], c["to"]
        S.count("random_spectra")
        wit = {"level": "L", "random": c}
        tag = "%r->%r %s" % (shape, to, c["kind"])
        if "data" not in direct or "data" not in first or "data" not in ident:
            S.viol("C03:panic:project", "[rand %s] project failed: %s" % (tag, str([direct, first, ident])[:300]), wit)
            continue
        scale = sum(abs(Fraction(x)) for x in data)
        exact = project_exact(shape, [Fraction(x) for x in data], to)
        # each target cell is a sum of products: a correct evaluation is within a tiny multiple of the sum of the ABSOLUTE terms of THAT
        # cell (the usual forward bound of a dot product) - not of the whole spectrum, or a huge entry elsewhere would excuse losing a cell
        exact_abs = project_exact(shape, [abs(Fraction(x)) for x in data], to) if kind in ("extreme", "wide", "signed") else None
        got = [h2f(x) for x in direct["data"]]
        if exact_abs is not None:
            bad = [(j, g, float(e)) for j, (g, e, a_) in enumerate(zip(got, exact, exact_abs)) if not close(g, e, a_)]
        else:
            bad = [(j, g, float(e)) for j, (g, e) in enumerate(zip(got, exact)) if not close(g, e, scale)]
        if direct["shape"] != to or bad:
            S.viol("C03:value", "[rand %s] (flat, got, exact) %r" % (tag, bad[:5]), wit)
        if not all(math.isfinite(g) for g in got):
            S.viol("C03:nonfinite:project", "[rand %s] non-finite output from finite input" % tag, wit)
        # mass
        if all(math.isfinite(g) for g in got) and abs(sum(Fraction(g) for g in got) - sum(Fraction(x) for x in data)) > REL * scale + Fraction(1, 10 ** 300):
            S.viol("C03:law-mass", "[rand %s] mass %r -> %r" % (tag, float(sum(Fraction(x) for x in data)), sum(got)), wit)
        # non-negativity
        if all(x >= 0 for x in data) and any(g < 0 for g in got):
            S.viol("C03:law-nonneg", "[rand %s] negative entry from non-negative input" % tag, wit)
        # identity: numerically equal
        if ident["shape"] != shape or [h2f(x) for x in ident["data"]] != [float(x) for x in data]:
            S.viol("C03:law-identity", "[rand %r] projecting to the same shape changed the spectrum: %r vs %r" % (
                shape, [h2f(x) for x in ident["data"]][:6], data[:6]), wit)
        step2.append({"op": "spec", "do": "project", "shape": first["shape"], "data": first["data"], "to": to})
        owners.append((c, got, scale))
        # commutes with marginalization (>=2 axes): marginalize(project(x)) == project(marginalize(x))
        if len(shape) >= 2:
            ax = ci % len(shape)
            step2.append({"op": "spec", "do": "marginalize", "shape": direct["shape"], "data": direct["data"], "axes": [ax]})
            owners.append(("marg-of-proj", c, ax))
            step2.append(spec_req(shape, data, do="marginalize", axes=[ax]))
            owners.append(("marg", c, ax))
        S.case(key=digest([shape, GS.hexes(data), to]), nontrivial=to != shape and len(set(data)) > 1)
        if ci == 0 and p["i"] == 0:
            S.sample({"level": "L", "project": {"from": shape, "to": to}, "input": data[:10], "got": got[:10], "exact": [float(e) for e in exact[:10]]})
    res2 = harness.run_all(step2)
    pend = {}
    step3, own3 = [], []
    for o, r in zip(owners, res2):
        if o[0] == "marg-of-proj":
            pend[id(o[1])] = r
        elif o[0] == "marg":
            c, ax = o[1], o[2]
            if "data" in r:
                step3.append({"op": "spec", "do": "project", "shape": r["shape"], "data": r["data"], "to": [t for j, t in enumerate(c["to"]) if j != ax]})
                own3.append((c, ax))
        else:
            c, got, scale = o
            S.count("two_step_checks")
            if "data" not in r:
                S.viol("C03:panic:project", "[two-step %r->%r->%r] failed: %s" % (c["shape"], c["mid"], c["to"], str(r)[:200]), {"level": "L", "random": c})
                continue
            g2 = [h2f(x) for x in r["data"]]
            if any((not math.isfinite(b)) or abs(Fraction(a) - Fraction(b)) > 2 * REL * scale + Fraction(1, 10 ** 300) for a, b in zip(got, g2) if math.isfinite(a)):
                S.viol("C03:law-two-step", "[%r->%r->%r] two-step %r vs direct %r" % (c["shape"], c["mid"], c["to"], g2[:6], got[:6]), {"level": "L", "random": c})
    res3 = harness.run_all(step3)
    for (c, ax), r in zip(own3, res3):
        S.count("commute_checks")
        a = pend.get(id(c))
        if a is None or "data" not in a or "data" not in r:
            S.viol("C03:panic:project", "[commute %r] failed: %s %s" % (c["shape"], str(a)[:100], str(r)[:100]), {"level": "L", "random": c})
            continue
        scale = sum(abs(Fraction(x)) for x in c["data"])
        x, y = [h2f(v) for v in a["data"]], [h2f(v) for v in r["data"]]
        if a["shape"] != r["shape"] or any(abs(Fraction(u) - Fraction(v)) > 2 * REL * scale + Fraction(1, 10 ** 300) for u, v in zip(x, y) if math.isfinite(u) and math.isfinite(v)):
            S.viol("C03:law-commute", "[%r->%r axis %d] marginalize(project) %r vs project(marginalize) %r" % (c["shape"], c["to"], ax, x[:6], y[:6]), {"level": "L", "random": c})


def check_errors(S, p):
    rng = rng_for(S.seed, "c03", p["name"], "err")
    reqs, meta = [], []
    for _ in range(12):
        shape = GS.random_shape(rng, 1, 4, 6)
        data = GS.values(rng, O.prod(shape), "int")
        d = len(shape)
        bigger = list(shape); bigger[rng.randrange(d)] += rng.randint(1, 3)
        zero = list(shape); zero[rng.randrange(d)] = 0
        mixed = []
        for i_ in range(d):
            for j_ in range(d):
                if i_ != j_ and shape[i_] > 1:
                    t_ = list(shape)
                    t_[i_] -= 1              # one axis shrinks ...
                    t_[j_] += rng.randint(1, 2)   # ... another grows: inadmissible whatever the order of the two axes
                    mixed.append((t_, "InvalidProjection"))
        for to, want in [(bigger, "InvalidProjection"), (zero, "Zero"), (shape + [1], "UnequalDimensions"), (shape[:-1], "UnequalDimensions" if d > 1 else None),
                         ([2 ** 63] * d, "InvalidProjection"), ([2 ** 64 - 1] * d, "InvalidProjection")] + mixed:
            if to == [] or want is None:
                continue
            reqs.append(spec_req(shape, data, do="project", to=to))
            meta.append((shape, to, want))
    for (shape, to, want), r in zip(meta, harness.run_all(reqs)):
        S.count("error_requests")
        S.case(key=digest([shape, to, "err"]), nontrivial=False)
        wit = {"level": "L", "error_request": {"shape": shape, "to": to}}
        if "panic" in r or r.get("died"):
            S.viol("C03:panic:project-invalid", "[project %r->%r] panicked: %s" % (shape, to, str(r)[:200]), wit)
        elif "err" not in r:
            S.viol("C03:invalid-accepted", "[project %r->%r] inadmissible target accepted: %s" % (shape, to, str(r)[:200]), wit)
        elif not r["err"].startswith(want):
            S.viol("C03:wrong-error", "[project %r->%r] error %r, expected %s" % (shape, to, r["err"], want), wit)


def check_cli(S, p):
    for i in range(p["cli"]):
        rng = rng_for(S.seed, "c03", p["name"], "cli", i)
        # (1) view --project-shape vs exact
        shape = GS.random_shape(rng, 1, 3, 7)
        data = GS.values(rng, O.prod(shape), "int")
        odd = all(s % 2 == 1 for s in shape)
        to = [rng.randint(1, s) for s in shape]
        if odd and rng.random() < 0.5:
            to = [2 * rng.randint(0, (s - 1) // 2) + 1 for s in shape]
            args = ["--project-individuals", ",".join(str((t - 1) // 2) for t in to)]
        else:
            args = ["--project-shape", ",".join(map(str, to))]
        inp = GS.text_spectrum(shape, data, 0)
        r = cli.sfs(["view", "--precision", "9"] + args, stdin=inp)
        S.count("cli_runs")
        wit = {"level": "C", "argv": r.argv, "input": inp.decode(), "run": r.brief()}
        parsed = E.parse_text_spectrum(r.out) if r.rc == 0 else None
        exact = project_exact(shape, [int(x) for x in data], to)
        if parsed is None or parsed[0] != to:
            S.viol("C03:cli-output", "[C view %r on %r] rc %s out %r err %r" % (args, shape, r.rc, r.out[:150], r.err[:150]), wit)
        else:
            scale = sum(abs(int(x)) for x in data)
            bad = [(j, t, float(e)) for j, (t, e) in enumerate(zip(parsed[1], exact)) if abs(Fraction(t) - e) > Fraction(1, 2 * 10 ** 9) + Fraction(REL) * scale]
            if bad:
                S.viol("C03:cli-value", "[C view %r on %r] (flat, printed, exact) %r" % (args, shape, bad[:5]), wit)
        S.case(key=digest([shape, data, to, "C"]), nontrivial=to != shape)
        # (2) inadmissible targets at the CLI
        bigger = list(shape); bigger[0] += 1
        for bad_to in (bigger, [0] * len(shape), shape + [1]):
            rr = cli.sfs(["view", "--project-shape", ",".join(map(str, bad_to))], stdin=inp)
            S.count("cli_runs")
            S.count("cli_error_requests")
            if rr.rc == 0 or rr.out or not rr.err.strip():
                S.viol("C03:cli-invalid-accepted", "[C view --project-shape %r on %r] rc %s stdout %r stderr %r" % (bad_to, shape, rr.rc, rr.out[:100], rr.err[:100]),
                       {"level": "C", "argv": rr.argv, "input": inp.decode()})
        # (3) create | view --project == create --project on complete data
        cs = GC.random_callset(rng, nsamples=rng.choice([2, 3, 5, 8]), nrecords=rng.choice([3, 10, 40]), complete_only=True, extras=False)
        smap = GC.random_sample_map(rng, cs.samples, npops=rng.randint(1, min(3, len(cs.samples))))
        proj = GC.random_project(rng, smap)
        data = cs.to_vcf()
        a = E.cli_create(data, smap, extra=[])
        b = cli.sfs(["view", "--precision", "8", "--project-shape", ",".join(str(m + 1) for m in proj)], stdin=a.out)
        c = E.cli_create(data, smap, project=proj, extra=["--precision", "8"])
        S.count("cli_runs", 3)
        S.count("cli_create_vs_view_project")
        pb, pc = (E.parse_text_spectrum(b.out) if b.rc == 0 else None), (E.parse_text_spectrum(c.out) if c.rc == 0 else None)
        wit = {"level": "C", "vcf": data.decode()[:10000], "map": smap, "project": proj, "b": b.brief(), "c": c.brief()}
        if pb is None or pc is None or pb[0] != pc[0]:
            S.viol("C03:cli-create-vs-view", "[C] create|view --project vs create --project: %r / %r" % (b.brief(), c.brief()), wit)
        else:
            n = len(cs.records)
            if any(abs(Fraction(x) - Fraction(y)) > Fraction(1, 10 ** 8) + Fraction(REL) * n for x, y in zip(pb[1], pc[1])):
                S.viol("C03:cli-create-vs-view", "[C] create|view --project %r differs from create --project %r" % (pb[1][:8], pc[1][:8]), wit)


def shard(S, p):
    if "replay" in p:
        w = p["replay"]
        if "pmf_query" in w:
            check_pmf(S, {"i": 0}, [w["pmf_query"]], "pmf_replay")
        else:
            S.inconc("witness carries the full request for manual replay")
        return
    i = p["i"]
    # (a) grid, split over shards by N
    qs = [q for q in grid_queries(p["nmax"], i, NSHARD) if (q[0] * 31 + q[1]) % NSHARD == i]
    check_pmf(S, p, qs, "pmf_grid")
    # (b) large sizes
    rng = rng_for(S.seed, "c03", p["name"], "large")
    for N in LARGE:
        if (N + i) % 2 == 0 or True:
            check_pmf(S, p, large_queries(rng, N, p["per_large"]), "pmf_large")
    # (b2) every N between the grid and the large sizes: sampled queries centred on n ~ N/2, k ~ mode (where binomials are largest)
    qs = []
    for N in range(p["nmax"] + 1, 169):
        if (N + i) % 4:
            continue
        for _ in range(p["per_large"]):
            n = min(N, max(0, N // 2 + rng.randint(-3, 3))) if rng.random() < 0.5 else rng.randint(0, N)
            K = min(N, max(0, N // 2 + rng.randint(-3, 3))) if rng.random() < 0.5 else rng.randint(0, N)
            lo, hi = max(0, n - (N - K)), min(n, K)
            mode = min(hi, max(lo, ((n + 1) * (K + 1)) // (N + 2)))
            qs.append([N, K, n, rng.choice([mode, rng.randint(lo, hi), min(hi, mode + 1)])])
    check_pmf(S, p, qs, "pmf_medium")
    check_units(S, p)
    check_big_targets(S, p)
    check_concurrent(S, p)
    check_random(S, p)
    check_errors(S, p)
    check_cli(S, p)
