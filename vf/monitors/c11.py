"""C11 - a site's contribution is independent of earlier sites (additive, order-free).

L1 replica monitor: a random history of records is fed to ONE long-lived site::Reader; every step's
observable result (Site variant, count index / contribution vector bit pattern, skipped samples) must
equal what a FRESH reader returns for that record alone. C: concatenation and permutation relations.
"""
import math
from fractions import Fraction
from .. import harness, cli
from ..common import rng_for, h2f, digest
from ..engines import create as E
from ..gen import callsets as G
from ..gen.vcfgen import CallSet, Record, gt
from ..oracle.callset import reference_create, classify

LEVEL = "exploration"
NEEDS = ["harness", "cli"]
KINDS = ["complete", "partial", "multiallelic", "insufficient", "exact"]
RULE = ("L1: histories of 2-200 records over 2-8 samples in 1-3 populations, records drawn from the five site kinds (complete, partially missing "
        "but projectable, multiallelic, insufficient, exactly sufficient) with small state spaces so that identical allele counts recur with "
        "different totals, with and without projection; cohorts of 90-230 samples whose number of called samples rises and falls from record to record (more than 170 called chromosomes, projected down); histories with failing records (a non-diploid genotype in a selected sample) that the caller reads past; four histories of ~30000 records over 200-240 samples with more than 2^14 of distinct configurations (whole == sum of halves); records for which the genotype reader hands over fewer genotypes than samples (release and checked build must answer alike); each step compared with a fresh-reader replica, and the accumulated spectrum with the "
        "sum of the replicas' contributions. C: spectrum(A||B) == spectrum(A)+spectrum(B) and permutation invariance (exact without projection, "
        "1e-9*R with). Non-trivial: history with >= 3 distinct site kinds and a repeated allele-count vector; distinct = digest(history, map, target). "
        "The evidence lists how often each ordered pair of kinds was observed.")
ASSUMPTIONS = ["replica comparison is bit-exact: the same code on the same numbers must give the same bits",
               "the fresh reader is the real code too; absolute correctness of a single record is C01/C02's job"]
FLOORS = {"quick": {"evaluations": 2000, "distinct_nontrivial": 800, "counts": {"L1_steps": 60000, "C_relations": 90, "L1_cohort_histories": 100, "L1_histories_with_failing_records": 200, "L1_failing_records_read_past": 200, "C_wide_target_cases": 30, "both_builds_short_records": 150, "L1_long_histories": 4}},
          "thorough": {"evaluations": 150000, "distinct_nontrivial": 50000, "counts": {"L1_steps": 4000000, "C_relations": 2500}}}
NSHARD = 32


def plan(tier, seed):
    q = tier == "quick"
    return [{"name": "s%d" % i, "i": i, "hist": 70 if q else 20000, "c": 3 if q else 300} for i in range(NSHARD)]


def kind_of(codes, cols_by_pop, project):
    """Site kind of a record (codes per sample) for the given map / target."""
    if any(codes[c] == "5" for cols in cols_by_pop for c in cols):
        return "failing"
    t = []
    multi = False
    missing = False
    for cols in cols_by_pop:
        tj = 0
        for c in cols:
            v = int(codes[c])
            if v <= 2:
                tj += 2
            elif v == 4:
                multi = True
            else:
                missing = True
        t.append(tj)
    if project is None:
        if multi:
            return "multiallelic"
        return "partial" if missing else "complete"
    if any(tj < m for tj, m in zip(t, project)):
        return "insufficient"
    if t == project:
        return "exact"
    if multi:
        return "multiallelic"
    return "partial" if missing else "complete"


def gen_history(rng, ns, cols_by_pop, project, length):
    sel = [c for cols in cols_by_pop for c in cols]
    recs = []
    pool = []   # recurring patterns
    for _ in range(length):
        r = rng.random()
        if pool and r < 0.25:
            rec = list(rng.choice(pool))
            if rng.random() < 0.5:
                # same ALT counts, different totals: turn a homozygous-ref sample into a missing one (or back)
                c = rng.choice(sel)
                rec[c] = {"0": "3", "3": "0"}.get(rec[c], rec[c])
            recs.append("".join(rec))
            continue
        style = rng.random()
        rec = []
        pm = rng.choice([0.0, 0.0, 0.2, 0.5, 0.9])
        px = rng.choice([0.0, 0.0, 0.0, 0.3])
        pa = rng.choice([0.0, 0.1, 0.5, 1.0])
        for c in range(ns):
            x = rng.random()
            if x < pm:
                rec.append("3")
            elif x < pm + px:
                rec.append("4")
            else:
                rec.append(str((1 if rng.random() < pa else 0) + (1 if rng.random() < pa else 0)))
        if style < 0.15:
            rec = ["0" if v in "012" else v for v in rec]      # monomorphic
        s = "".join(rec)
        recs.append(s)
        if rng.random() < 0.3:
            pool.append(s)
    return recs


def check_L1(S, p):
    if "replay" in p:
        return check_L1_batch(S, p, [p["replay"]["i"]])
    for lo in range(0, p["hist"], 1000):          # batches bound the memory of a shard
        check_L1_batch(S, p, range(lo, min(p["hist"], lo + 1000)))


def check_L1_batch(S, p, idxs):
    seed = S.seed
    cases = []
    name = p["replay"]["name"] if "replay" in p else p["name"]
    for i in idxs:
        rng = rng_for(seed, "c11", name, "h", i)
        ns = rng.randint(2, 8)
        samples = ["s%d" % j for j in range(ns)]
        smap = G.random_sample_map(rng, samples, npops=rng.randint(1, min(3, ns)))
        project = None
        if rng.random() < 0.65:
            project = G.random_project(rng, smap)
        pops = []
        for _, q in smap:
            if q not in pops:
                pops.append(q)
        cols_by_pop = [[samples.index(s) for s, q in smap if q == lab] for lab in pops]
        length = rng.choice([2, 3, 5, 10, 30, 80, 200])
        if i % 12 == 7:
            # a cohort: more than 170 called chromosomes in a population, the number of called samples going up and down from record
            # to record, projected down (tables that depend on the sample size must not survive from one site to the next)
            ns = rng.randint(90, 230)
            samples = ["s%d" % j for j in range(ns)]
            npops_ = rng.choice([1, 1, 2])
            cut = ns if npops_ == 1 else rng.randint(3, 10)
            smap = [(s_, None if npops_ == 1 else ("A" if j < ns - cut else "B")) for j, s_ in enumerate(samples)]
            cols_by_pop = [list(range(ns))] if npops_ == 1 else [list(range(ns - cut)), list(range(ns - cut, ns))]
            project = [rng.choice([100, 150, 170, 171, 172, 2 * len(cols) - 40, len(cols)]) for cols in cols_by_pop]
            project = [max(0, min(2 * len(cols), m)) for m, cols in zip(project, cols_by_pop)]
            length = rng.choice([4, 8, 14])
            hist = []
            for _ in range(length):
                pm = rng.choice([0.0, 0.02, 0.1, 0.2, 0.3])
                pa = rng.choice([0.05, 0.3, 0.5])
                hist.append("".join("3" if rng.random() < pm else str((rng.random() < pa) + (rng.random() < pa)) for _ in range(ns)))
            if rng.random() < 0.5:
                hist.sort(key=lambda r_: r_.count("3"), reverse=True)      # fewest called samples first, then more and more
            S.count("L1_cohort_histories")
        else:
            hist = gen_history(rng, ns, cols_by_pop, project, length)
        after_error = False
        if i % 5 == 3 and length >= 3:
            # a library caller may skip a record that failed and read on: put non-diploid genotypes of selected samples into the history
            sel_cols = [c_ for cols in cols_by_pop for c_ in cols]
            for _ in range(rng.randint(1, 3)):
                k_ = rng.randrange(len(hist) - 1)
                # the failing record is a copy of a neighbour with one selected genotype turned non-diploid (partial state left behind?)
                src_ = list(hist[rng.choice([k_, min(len(hist) - 1, k_ + 1)])])
                src_[rng.choice(sel_cols)] = "5"
                hist.insert(k_ + 1, "".join(src_))
            after_error = True
            S.count("L1_histories_with_failing_records")
        cases.append({"name": name, "i": i, "samples": samples, "map": smap, "project": project, "hist": hist, "cols": cols_by_pop, "after_error": after_error})
    reqs = []
    for c in cases:
        base = {"op": "site_hist", "samples": c["samples"], "map": E.map_json(c["map"]),
                "project": None if c["project"] is None else [m + 1 for m in c["project"]], "records": c["hist"]}
        if c.get("after_error"):
            base["after_error"] = "continue"
        reqs.append(dict(base, fresh=False))
        reqs.append(dict(base, fresh=True))
    res = harness.run_all(reqs)
    for ci, c in enumerate(cases):
        live, fresh = res[2 * ci], res[2 * ci + 1]
        wit = {"level": "L1", "name": c["name"], "i": c["i"], "map": E.map_json(c["map"]), "project": c["project"], "history": c["hist"]}
        tag = "L1 %s/%d target %r" % (c["name"], c["i"], c["project"])
        if "events" not in live or "events" not in fresh:
            S.viol("C11:fail", "[%s] %s / %s" % (tag, str(live)[:200], str(fresh)[:200]), wit)
            continue
        if len(live["events"]) != len(c["hist"]) or len(fresh["events"]) != len(c["hist"]):
            S.viol("C11:length", "[%s] %d/%d events for %d records" % (tag, len(live["events"]), len(fresh["events"]), len(c["hist"])), wit)
            continue
        kinds = [kind_of(r, c["cols"], c["project"]) for r in c["hist"]]
        for a, b in zip(kinds, kinds[1:]):
            S.count("pair %s -> %s" % (a, b))
        bad = None
        for step, (el, ef) in enumerate(zip(live["events"], fresh["events"])):
            S.count("L1_steps")
            same = el["k"] == ef["k"] and el.get("idx") == ef.get("idx") and el.get("v") == ef.get("v") and el.get("skipped") == ef.get("skipped")
            if el["k"] == "E" and ef["k"] == "E":
                same = True
                S.count("L1_failing_records_read_past")
            if not same:
                bad = (step, el, ef)
                break
        if bad:
            step, el, ef = bad
            def show(e):
                return {k: (v if k != "v" else [h2f(x) for x in v][:8]) for k, v in e.items() if k not in ("contig", "pos")}
            S.viol("C11:leak", "[%s] step %d (record %s after %s): long-lived reader gave %r, a fresh reader %r" % (
                tag, step, c["hist"][step], c["hist"][max(0, step - 3):step], show(el), show(ef)), wit)
        else:
            # the accumulated spectrum equals the sum of the replicas' contributions
            n = len(live["scs"]["data"])
            acc = [Fraction(0)] * n
            shape = live["scs"]["shape"]
            import itertools
            pos = {ix: f for f, ix in enumerate(itertools.product(*[range(s) for s in shape]))}
            for ef in fresh["events"]:
                if ef["k"] == "S":
                    acc[pos[tuple(ef["idx"])]] += 1
                elif ef["k"] == "P":
                    for j, x in enumerate(ef["v"]):
                        acc[j] += Fraction(h2f(x)) if math.isfinite(h2f(x)) else 0
            got = [h2f(x) for x in live["scs"]["data"]]
            tol = Fraction(len(c["hist"]), 10 ** 9)
            if any((not math.isfinite(g)) or abs(Fraction(g) - a) > tol for g, a in zip(got, acc)):
                S.viol("C11:accumulation", "[%s] accumulated spectrum %r differs from the sum of per-record contributions %r" % (tag, got[:8], [float(a) for a in acc[:8]]), wit)
        recur = len(set(c["hist"])) < len(c["hist"])
        S.case(key=digest([c["hist"], E.map_json(c["map"]), c["project"]]), nontrivial=len(set(kinds)) >= 3 and recur)
        if ci == 1 and p.get("i") == 0:
            S.sample({"level": "L1", "map": E.map_json(c["map"]), "project": c["project"], "history_head": c["hist"][:6], "kinds_head": kinds[:6],
                      "live_events_head": [e["k"] for e in live["events"][:6]]})


def cs_from_codes(samples, hist, contig="c1", start=1):
    code_gt = {"0": (0, 0), "1": (0, 1), "2": (1, 1), "3": (None, None), "4": (1, 2)}
    recs = []
    pos, cur = start, contig
    for i, h in enumerate(hist):
        # deterministic variety: some records share a position, and the stream switches contig once keeping POS
        if i and (len(h) + i) % 7 != 0:
            pos += 1
        if i == (2 * len(hist)) // 3 and len(hist) > 3:
            cur = contig + "b"
        recs.append(Record(cur, pos, [gt(code_gt[c], False) for c in h], alts=["C", "G"]))
    return CallSet(samples, [(contig, 10 ** 6), (contig + "b", 10 ** 6)], recs)


def parse_vals(out):
    p = E.parse_text_spectrum(out)
    return None if p is None else (p[0], [Fraction(t) for t in p[1]])


def check_C(S, p):
    seed = S.seed
    for i in range(p["c"]):
        rng = rng_for(seed, "c11", p["name"], "C", i)
        ns = rng.randint(2, 6)
        samples = ["s%d" % j for j in range(ns)]
        smap = G.random_sample_map(rng, samples, npops=rng.randint(1, min(3, ns)))
        project = G.random_project(rng, smap) if rng.random() < 0.6 else None
        pops = []
        for _, q in smap:
            if q not in pops:
                pops.append(q)
        cols = [[samples.index(s) for s, q in smap if q == lab] for lab in pops]
        hist = gen_history(rng, ns, cols, project, rng.choice([4, 10, 40, 40, 1024, 2048]) if i else [1024, 2048, 512][p["i"] % 3])
        wide = i == 1
        if wide:
            # a projected spectrum of more than a thousand cells (two populations of 17-25 samples), several reader threads:
            # if adding a site overlaps with reading the next one, the result must still not depend on order or timing
            na_, nb_ = rng.randint(17, 25), rng.randint(17, 25)
            ns = na_ + nb_
            samples = ["s%d" % j for j in range(ns)]
            smap = [(s_, "A" if j < na_ else "B") for j, s_ in enumerate(samples)]
            cols = [list(range(na_)), list(range(na_, ns))]
            project = [rng.choice([32, 33, 2 * na_ - 2]), rng.choice([32, 31, 2 * nb_ - 2])]
            project = [min(m_, 2 * len(c_)) for m_, c_ in zip(project, cols)]
            hist = gen_history(rng, ns, cols, project, 40)
            S.count("C_wide_target_cases")
        cut = rng.randint(0, len(hist))
        perm = hist[:]
        rng.shuffle(perm)
        extra = ["--precision", "10"] if project else []
        if wide:
            extra += ["-t", str(rng.choice([2, 3, 4, 8]))]
        container = rng.choice(E.CONTAINERS) if not wide else rng.choice(["vcf.gz", "bcf"])

        def run(h):
            return E.cli_create(E.encode(cs_from_codes(samples, h), container, rng), smap, project=project, extra=extra)
        whole, a, b, pm = run(hist), run(hist[:cut]), run(hist[cut:]), run(perm)
        S.count("C_relations", 2)
        wit = {"level": "C", "map": E.map_json(smap), "project": project, "history": hist, "cut": cut, "permutation": perm, "container": container,
               "whole": whole.brief(), "a": a.brief(), "b": b.brief(), "perm": pm.brief()}
        vs = [parse_vals(r.out) if r.rc == 0 else None for r in (whole, a, b, pm)]
        tag = "C %s/%d target %r" % (p["name"], i, project)
        if any(v is None for v in vs):
            S.viol("C11:cli-fail", "[%s] a run failed: %r" % (tag, [r.rc for r in (whole, a, b, pm)]), wit)
            continue
        tol = 0 if project is None else Fraction(len(hist), 10 ** 9) + Fraction(2, 10 ** 10)
        if any(abs(w - (x + y)) > tol for w, x, y in zip(vs[0][1], vs[1][1], vs[2][1])):
            S.viol("C11:additivity", "[%s] spectrum(A||B) %r != spectrum(A)+spectrum(B) %r (cut %d)" % (
                tag, [float(x) for x in vs[0][1][:8]], [float(x + y) for x, y in zip(vs[1][1][:8], vs[2][1][:8])], cut), wit)
        if (project is None and pm.out != whole.out) or any(abs(w - x) > tol for w, x in zip(vs[0][1], vs[3][1])):
            S.viol("C11:permutation", "[%s] permuting the records changed the spectrum: %r vs %r" % (tag, pm.out[:150], whole.out[:150]), wit)
        if wide:
            # the same input again, and on one thread: byte-identical output
            again = run(hist)
            one = E.cli_create(E.encode(cs_from_codes(samples, hist), container, rng), smap, project=project, extra=["--precision", "10", "-t", "1"])
            S.count("C_relations", 2)
            if again.out != whole.out or one.out != whole.out or one.rc != whole.rc:
                S.viol("C11:threads-or-timing", "[%s] the same records give different output on a second run / on one thread: %r vs %r vs %r" % (
                    tag, whole.out[-80:], again.out[-80:], one.out[-80:]), wit)
        S.case(key=digest([hist, E.map_json(smap), project, "C"]), nontrivial=len(set(hist)) >= 3)


def check_C_value_less(S, p):
    """Records in which a sample has NO genotype value at all (bare '.' column in VCF text; FORMAT without GT in any container),
    and neighbouring records with equal POS on different contigs, interleaved with ordinary records: whole == sum of parts, any
    order, and equal to the reference in which such a sample is simply missing."""
    rng = rng_for(S.seed, "c11", p["name"], "valueless")
    ns = rng.randint(2, 4)
    samples = ["s%d" % j for j in range(ns)]
    smap = [(s_, None) for s_ in samples]
    project = [rng.randint(1, 2 * ns)] if rng.random() < 0.5 else None
    lines, recs_oracle = [], []
    pos = {"c1": 0, "c2": 0}
    contig = "c1"
    for i in range(rng.choice([6, 12, 30])):
        if i and rng.random() < 0.25:
            contig = "c2" if contig == "c1" else "c1"
            pos[contig] = max(pos[contig], pos["c1" if contig == "c2" else "c2"])          # equal POS across the contig switch
        else:
            pos[contig] += rng.choice([0, 1, 1, 5])
        pos[contig] = max(1, pos[contig])
        kind = rng.choice(["plain", "plain", "bare-dot", "no-gt"])
        gts, cols = [], []
        for j in range(ns):
            a = (rng.randint(0, 1), rng.randint(0, 1))
            if kind == "bare-dot" and rng.random() < 0.5:
                gts.append(gt((None, None)))
                cols.append(".")
            elif kind == "no-gt":
                gts.append(gt((None, None)))
                cols.append(str(rng.randint(1, 40)))
            else:
                gts.append(gt(a))
                cols.append("%d/%d" % a)
        fmtcol = "DP" if kind == "no-gt" else "GT"
        lines.append("%s\t%d\t.\tA\tC\t.\t.\t.\t%s\t%s" % (contig, pos[contig], fmtcol, "\t".join(cols)))
        recs_oracle.append(Record(contig, pos[contig], gts))
    header = ("##fileformat=VCFv4.3\n##contig=<ID=c1,length=100000>\n##contig=<ID=c2,length=100000>\n"
              '##FORMAT=<ID=GT,Number=1,Type=String,Description="g">\n##FORMAT=<ID=DP,Number=1,Type=Integer,Description="d">\n'
              "#CHROM\tPOS\tID\tREF\tALT\tQUAL\tFILTER\tINFO\tFORMAT\t" + "\t".join(samples) + "\n")

    def vcf(idx):
        return (header + "".join(lines[i] + "\n" for i in idx)).encode()

    def run(idx, gz):
        d = vcf(idx)
        if gz:
            from ..gen import vcfgen
            d = vcfgen.bgzf(d, vcfgen.record_cuts_vcf(d)[::2])
        return E.cli_create(d, smap, project=project, extra=["--precision", "10"] if project else [])
    allidx = list(range(len(lines)))
    cut = rng.randint(1, len(lines) - 1)
    perm = allidx[:]
    rng.shuffle(perm)
    gz = rng.random() < 0.5
    whole, a, b, pm = run(allidx, gz), run(allidx[:cut], gz), run(allidx[cut:], gz), run(perm, gz)
    S.count("C_relations", 2)
    S.count("C_value_less_cases")
    exp = reference_create(CallSet(samples, [("c1", 100000), ("c2", 100000)], recs_oracle), smap, project)
    wit = {"level": "C", "vcf": vcf(allidx).decode(), "project": project, "cut": cut, "perm": perm}
    vs = [parse_vals(r.out) if r.rc == 0 else None for r in (whole, a, b, pm)]
    if any(v is None for v in vs):
        S.viol("C11:cli-fail", "[C value-less %s] a run failed: %r %r" % (p["name"], [r.rc for r in (whole, a, b, pm)], whole.err[:200]), wit)
        return
    tol = 0 if project is None else Fraction(len(lines), 10 ** 9) + Fraction(2, 10 ** 10)
    if any(abs(w - Fraction(e)) > tol for w, e in zip(vs[0][1], exp.cells)) or vs[0][0] != exp.shape:
        S.viol("C11:value-less-reference", "[C %s target %r] spectrum %r differs from the reference %r (a sample without a genotype value is missing, whatever it had in the record before)" % (
            p["name"], project, [float(x) for x in vs[0][1][:8]], [float(x) for x in exp.cells[:8]]), wit)
    if any(abs(w - (x + y)) > tol for w, x, y in zip(vs[0][1], vs[1][1], vs[2][1])):
        S.viol("C11:additivity", "[C value-less %s] spectrum(A||B) != spectrum(A)+spectrum(B) at cut %d" % (p["name"], cut), wit)
    if any(abs(w - x) > tol for w, x in zip(vs[0][1], vs[3][1])):
        S.viol("C11:permutation", "[C value-less %s] permuting the records changed the spectrum" % p["name"], wit)
    S.case(key=digest([lines, project]), nontrivial=True)


def check_L1_long_history(S, p):
    """One history of about thirty thousand records over a cohort of 200-240 samples next to a tiny, fully called population: tens of thousands
    of distinct (called, ALT) configurations on one axis, the same configuration again and again on the other. Whatever the reader
    memoises per configuration is filled, evicted and refilled many times; the whole still equals the sum of its two halves."""
    rng = rng_for(S.seed, "c11", p["name"], "long")
    na_, nb_ = rng.randint(200, 240), rng.randint(2, 4)
    ns = na_ + nb_
    samples = ["s%d" % j for j in range(ns)]
    smap = [(s_, "A" if j < na_ else "B") for j, s_ in enumerate(samples)]
    target = rng.choice([[20, 2 * nb_], [16, 2], [30, 2 * nb_]])
    nrec = rng.choice([30000, 34000])
    hist = []
    for _ in range(nrec):
        called = rng.randint(12, na_)
        alt = rng.randint(0, 2 * called)
        row = ["3"] * na_
        idx = rng.sample(range(na_), called)
        twos, rem = divmod(alt, 2)
        twos = min(twos, called)
        for k_, j_ in enumerate(idx):
            row[j_] = "2" if k_ < twos else ("1" if k_ == twos and rem else "0")
        hist.append("".join(row) + "0" * nb_)
    counted = sum(1 for r_ in hist if 2 * (na_ - r_[:na_].count("3")) >= target[0])      # the others lack data for the target: no weight
    cut = rng.randint(nrec // 3, 2 * nrec // 3)
    base = {"op": "site_hist", "samples": samples, "map": E.map_json(smap), "project": [m + 1 for m in target], "fresh": False, "events": False}
    res = harness.run_all([dict(base, records=hist), dict(base, records=hist[:cut]), dict(base, records=hist[cut:])], timeout=1200, _audit=False)
    S.count("L1_long_histories")
    wit = {"level": "L1", "long_history": {"samples": ns, "records": nrec, "cut": cut, "target": target, "seed_labels": [p["name"], "long"]}}
    if any("scs" not in r for r in res):
        S.viol("C11:fail", "[L1 long history, %d records] %s" % (nrec, str([{k: v for k, v in r.items() if k != "scs"} for r in res])[:300]), wit)
    else:
        w_, a_, b_ = ([h2f(x) for x in r["scs"]["data"]] for r in res)
        bad = [(j, x, y + z) for j, (x, y, z) in enumerate(zip(w_, a_, b_)) if not math.isfinite(x) or abs(x - (y + z)) > 1e-9 * nrec]
        mass = sum(w_)
        if bad or abs(mass - counted) > 1e-6 * nrec:
            S.viol("C11:additivity:long", "[L1 %d records, %d + %d samples, target %r] whole != first %d + rest: (flat, whole, sum of parts) %r; mass %r, %d records have enough data" % (
                nrec, na_, nb_, target, cut, bad[:4], mass, counted), wit)
    S.case(key=digest(["long", nrec, ns, target, S.seed]), nontrivial=True)


def check_L1_short_records(S, p):
    """A genotype reader (any implementation of the library's reader trait, or a BCF record) may hand over FEWER genotypes than it has
    samples. Whatever the site reader makes of such a record, it must not read memory it was not given: the release and the checked
    build answer alike, and the records around it are read as if it were not there."""
    rng = rng_for(S.seed, "c11", p["name"], "short")
    reqs = []
    for _ in range(6):
        ns = rng.randint(2, 7)
        samples = ["s%d" % j for j in range(ns)]
        smap = G.random_sample_map(rng, samples, npops=rng.randint(1, min(3, ns)), subset=False) if rng.random() < 0.7 else [(s_, None) for s_ in samples]
        project = G.random_project(rng, smap) if rng.random() < 0.4 else None
        recs = []
        for _ in range(rng.randint(3, 8)):
            full = "".join(str(rng.choice([0, 1, 2, 0, 3])) for _ in range(ns))
            recs.append(full if rng.random() < 0.5 else (full[:rng.randrange(0, ns)] if rng.random() < 0.7 else full + "".join(str(rng.choice([0, 1, 2])) for _ in range(rng.randint(1, 5)))))
        reqs.append({"op": "site_hist", "samples": samples, "map": E.map_json(smap), "project": None if project is None else [m + 1 for m in project],
                     "records": recs, "fresh": False, "after_error": "continue"})
    res = harness.both_builds(S, "C11", reqs, "short_records")
    for q, r in zip(reqs, res):
        if "panic" in r or r.get("died"):
            S.viol("C11:short-record:panic", "[L1 records %r for %d samples] %s" % (q["records"], len(q["samples"]), str(r)[:200]), {"level": "L1", "request": q})
        S.case(key=digest([q["records"], q["map"], "short"]), nontrivial=True)


def check_L1_swings(S, p, tier_len):
    """Neighbouring sites whose amount of called data swings from almost nothing to almost everything, in populations of very different
    sizes (a handful of samples next to 33-70), projected to small targets: per site the class (exact / projectable / not enough data) of
    each population is drawn afresh, so that whatever a reader keeps from one site to the next - a class, a table, a summary of the
    called totals - meets a neighbour for which it is wrong. The long-lived reader must answer every record as a fresh reader does."""
    rng = rng_for(S.seed, "c11", p["name"], "swings")
    sizes = [rng.randint(2, 6), rng.randint(33, 70)] + ([rng.choice([1, 3, 34, 40])] if rng.random() < 0.4 else [])
    rng.shuffle(sizes)
    if rng.random() < 0.6:
        sizes.sort()                       # the small population first more often than not
    ns = sum(sizes)
    samples = ["s%d" % j for j in range(ns)]
    labs = ["P%d" % j for j in range(len(sizes))]
    smap, cols_by_pop, c0 = [], [], 0
    for lab, n_ in zip(labs, sizes):
        cols_by_pop.append(list(range(c0, c0 + n_)))
        smap += [(samples[c_], lab) for c_ in range(c0, c0 + n_)]
        c0 += n_
    project = [rng.choice([2, 4, 6, 2 * n_]) if n_ >= 3 else 2 * n_ for n_ in sizes]
    project = [min(m, 2 * n_) for m, n_ in zip(project, sizes)]
    hist = []
    for _ in range(tier_len):
        row = []
        for n_, m in zip(sizes, project):
            mode = rng.random()
            if mode < 0.4:
                called = rng.randint(0, min(n_, 10))            # almost nothing called
            elif mode < 0.8:
                called = rng.randint(max(0, n_ - 10), n_)       # almost everything called
            else:
                called = rng.randint(0, n_)
            on = set(rng.sample(range(n_), called))
            pa = rng.choice([0.0, 0.2, 0.5])
            row.append("".join(str((rng.random() < pa) + (rng.random() < pa)) if j in on else "3" for j in range(n_)))
        hist.append("".join(row))
    base = {"op": "site_hist", "samples": samples, "map": E.map_json(smap), "project": [m + 1 for m in project], "records": hist}
    live, fresh = harness.run_all([dict(base, fresh=False), dict(base, fresh=True)], timeout=900)
    S.count("L1_swing_histories")
    wit = {"level": "L1", "swings": {"sizes": sizes, "project": project, "records": len(hist), "seed_labels": [p["name"], "swings"]}}
    tag = "L1 swings %s sizes %r target %r" % (p["name"], sizes, project)
    if "events" not in live or "events" not in fresh or len(live["events"]) != len(hist) or len(fresh["events"]) != len(hist):
        S.viol("C11:fail", "[%s] %s / %s" % (tag, str(live)[:200], str(fresh)[:200]), wit)
        return
    kinds = [kind_of(r, cols_by_pop, project) for r in hist]
    for a, b in zip(kinds, kinds[1:]):
        S.count("swing pair %s -> %s" % (a, b))
    for step, (el, ef) in enumerate(zip(live["events"], fresh["events"])):
        S.count("L1_steps")
        if not (el["k"] == ef["k"] and el.get("idx") == ef.get("idx") and el.get("v") == ef.get("v") and el.get("skipped") == ef.get("skipped")):
            called = lambda r_: [2 * sum(1 for c_ in cols if r_[c_] != "3") for cols in cols_by_pop]
            S.viol("C11:leak:swings", "[%s] step %d (called alleles %r, oracle class %s) after a record with called alleles %r (%s): long-lived reader gave a %r event, a fresh reader a %r event" % (
                tag, step, called(hist[step]), kinds[step], called(hist[step - 1]) if step else None, kinds[step - 1] if step else None, el["k"], ef["k"]),
                dict(wit, step=step, record=hist[step], previous=hist[step - 1] if step else None))
            break
    S.case(key=digest(["swings", sizes, project, len(hist), S.seed, p["name"]]), nontrivial=len(set(kinds)) >= 3)


def shard(S, p):
    if "replay" in p:
        if "swings" in p["replay"]:
            check_L1_swings(S, dict(p, name=p["replay"]["swings"]["seed_labels"][0]), p["replay"]["swings"]["records"])
        elif p["replay"].get("level") == "L1":
            check_L1(S, p)
        else:
            S.inconc("C witnesses carry the inputs for manual replay")
        return
    check_L1(S, p)
    if p["i"] % 8 == 4:
        check_L1_long_history(S, p)
    check_L1_short_records(S, p)
    check_L1_swings(S, p, 1500 if p["hist"] < 1000 else 20000)
    check_C(S, p)
    check_C_value_less(S, p)
