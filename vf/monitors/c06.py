"""C06 - statistics equal their definitions on genotypes and the published estimators.

C: `sfs create | sfs stat -s ... --precision 12` against the same quantities computed directly from
the genotypes (vf.oracle.stats.from_genotypes). L: Spectrum statistic methods on 1-D count spectra
with n = 3..600 against the published estimator formulas with rational harmonic sums.
"""
import math, re
from fractions import Fraction
from .. import harness, cli
from ..common import rng_for, h2f, digest
from ..engines import create as E
from ..gen import callsets as GC, spectra as GS
from ..gen.vcfgen import CallSet, Record, gt
from ..oracle import stats as OS

LEVEL = "exploration"
NEEDS = ["harness", "cli"]
RULE = ("C: complete-data call sets with 1-4 populations of UNEQUAL sizes (two single-individual populations for R0/R1/KING), allele "
        "frequencies spread over the whole range incl. fixed-ALT sites, 5-300 records; every statistic defined for the dimensionality is "
        "requested in one `stat` call with --precision 12 and compared with the genotype-level value (abs 1e-9 + rel 1e-9 + 0.5e-12), and again at coarse precisions 0-6 (one for all / one per statistic) where every token must be the exact value rounded to its own printed digits; L: 1-D spectra of 3-600 chromosomes and two of more than 2^16; 1-D spectra with fractional entries and fewer than one segregating site; two-population spectra in which invariant sites outnumber variable ones by up to 10^12 (relative comparison); eight sparse joint spectra with 2^14 and more cells (129x131 ... 3x19x19x21) against the site-level definitions; "
        "1-D count spectra with n in 3..600 chromosomes (random, sparse, singleton-heavy, mass in the last class) against the published "
        "formulas. Statistics whose exact denominator is 0 are skipped (trivial). Non-trivial: S >= 2 and not all sites identical; distinct = "
        "digest(genotype codes, map) / digest(spectrum). Each statistic has its own counter and floor.")
ASSUMPTIONS = ["reference values use exact rationals; only the final square root of D statistics is floating point",
               "Fu and Li's D is the with-outgroup version using derived singletons (Fu and Li 1993), Tajima's D as in Tajima 1989"]
STATS_BY_DIM = {1: ["sum", "s", "pi", "theta", "d-tajima", "d-fu-li"], 2: ["sum", "s", "f2", "fst", "pi-xy"], 3: ["sum", "s", "f3"], 4: ["sum", "s", "f4"]}
ALL14 = ["d-fu-li", "d-tajima", "f2", "f3", "f4", "fst", "king", "pi", "pi-xy", "r0", "r1", "s", "sum", "theta"]
FLOORS = {"quick": {"evaluations": 1500, "distinct_nontrivial": 1000, "counts": dict({"C_pipelines": 250, "L_spectra": 1500, "L_huge_samples": 2, "L_large_joint_spectra": 8, "L_invariant_dominated_spectra": 150}, **{"stat_" + s: 20 for s in ALL14})},
          "thorough": {"evaluations": 60000, "distinct_nontrivial": 40000, "counts": dict({"C_pipelines": 8000, "L_spectra": 60000}, **{"stat_" + s: 500 for s in ALL14})}}
NSHARD = 32


def plan(tier, seed):
    q = tier == "quick"
    return [{"name": "s%d" % i, "i": i, "c": 10 if q else 1200, "l": 60 if q else 10000} for i in range(NSHARD)]


def close(got, exact):
    if exact is None:
        return True
    e = float(exact)
    if not math.isfinite(got):
        return False
    return abs(got - e) <= 1e-9 + 1e-9 * abs(e) + 0.5e-12


def complete_callset(rng, sizes, nrec):
    samples, smap = [], []
    labels = ["A", "B", "C", "D"][:len(sizes)]
    for lab, z in zip(labels, sizes):
        for j in range(z):
            nm = "%s%d" % (lab.lower(), j)
            samples.append(nm)
            smap.append((nm, lab))
    order = samples[:]
    rng.shuffle(order)
    recs = []
    for ri in range(nrec):
        style = rng.random()
        freqs = []
        for _ in sizes:
            if style < 0.1:
                freqs.append(rng.choice([0.0, 1.0]))
            elif style < 0.2:
                freqs.append(rng.choice([0.02, 0.98]))
            else:
                freqs.append(rng.random())
        gts = []
        for s in order:
            j = labels.index(dict(smap)[s])
            a = (1 if rng.random() < freqs[j] else 0, 1 if rng.random() < freqs[j] else 0)
            gts.append(gt(a, rng.random() < 0.3))
        recs.append(Record("c1", 1 + ri, gts))
    return CallSet(order, [("c1", 10 ** 6)], recs), smap


def check_C(S, p):
    seed = S.seed
    for i in range(p["c"]):
        rng = rng_for(seed, "c06", p["name"], "C", i)
        d = rng.choice([1, 1, 2, 2, 2, 3, 4])
        kin = d == 2 and rng.random() < 0.35
        if kin:
            sizes = [1, 1]
        else:
            sizes = rng.sample(range(1, 9), d) if d > 1 else [rng.randint(2, 20)]
        cs, smap = complete_callset(rng, sizes, rng.choice([5, 20, 60, 150, 300]))
        names = list(STATS_BY_DIM[d]) + (["king", "r0", "r1"] if kin else [])
        rng.shuffle(names)          # values are read positionally: the order given to -s must be the order printed
        a = E.cli_create(E.encode(cs, rng.choice(E.CONTAINERS), rng), smap)
        b = cli.sfs(["stat", "-s", ",".join(names), "--precision", "12"], stdin=a.out)
        S.count("C_pipelines")
        wit = {"level": "C", "vcf": cs.to_vcf().decode()[:30000], "map": E.map_json(smap), "stat_argv": b.argv, "create": a.brief(), "stat": b.brief()}
        if a.rc != 0 or b.rc != 0:
            S.viol("C06:fail", "[C create|stat %s sizes %r] rc %s/%s stderr %r" % (names, sizes, a.rc, b.rc, (a.err + b.err)[:200]), wit)
            continue
        toks = b.out.decode().strip().split(",")
        exact = OS.from_genotypes(OS.site_counts(cs, smap))
        if len(toks) != len(names):
            S.viol("C06:format", "[C stat] %d values for %d statistics: %r" % (len(toks), len(names), b.out[:100]), wit)
            continue
        for nm, tok in zip(names, toks):
            e = exact.get(nm)
            if e is None:
                S.count("undefined_skipped")
                continue
            S.count("stat_" + nm)
            try:
                g = float(tok)
            except ValueError:
                g = float("nan")
            if not close(g, e):
                S.viol("C06:genotype-definition:%s" % nm, "[C sizes %r, %d records] stat %s printed %s, from the genotypes %.12f" % (sizes, len(cs.records), nm, tok, float(e)), wit)
        # the same statistics at a coarse precision (one value for all, or one per statistic): whatever a token's spelling, it must be
        # within half a unit of ITS OWN last printed digit of the exact value - sign included
        precs = [rng.choice([0, 1, 2, 3, 4, 6]) for _ in names]
        one = rng.random() < 0.5
        if one:
            precs = [precs[0]] * len(names)
        c2 = cli.sfs(["stat", "-s", ",".join(names), "-p", str(precs[0]) if one else ",".join(map(str, precs))], stdin=a.out)
        S.count("C_coarse_precision_runs")
        toks2 = c2.out.decode().strip().split(",") if c2.rc == 0 else []
        if len(toks2) != len(names):
            S.viol("C06:format", "[C stat -p %r] rc %s, %d values for %d statistics: %r %r" % (precs, c2.rc, len(toks2), len(names), c2.out[:100], c2.err[:100]), dict(wit, coarse=c2.brief()))
        else:
            for nm, tok, pr in zip(names, toks2, precs):
                e = exact.get(nm)
                if e is None:
                    continue
                m_ = re.match(r"^(-?)([0-9]+)(?:\.([0-9]+))?(?:[eE]([-+]?[0-9]+))?$", tok)
                if not m_:
                    S.viol("C06:coarse-precision:%s" % nm, "[C sizes %r] stat %s -p %d printed %r: not a number (exact %.12g)" % (sizes, nm, pr, tok, float(e)), dict(wit, coarse=c2.brief()))
                    continue
                unit = Fraction(10) ** (int(m_.group(4) or 0) - len(m_.group(3) or ""))
                S.count("coarse_tokens")
                if abs(Fraction(tok) - Fraction(e)) > unit / 2 + Fraction(1, 10 ** 9) * (1 + abs(Fraction(e))):
                    S.viol("C06:coarse-precision:%s" % nm, "[C sizes %r, %d records] stat %s -p %d printed %r, which is not the exact value %.12g rounded to the printed digits" % (
                        sizes, len(cs.records), nm, pr, tok, float(e)), dict(wit, coarse=c2.brief()))
        S.case(key=digest([E.codes(cs), E.map_json(smap)]), nontrivial=exact.get("s", 0) >= 2)
        if i == 0 and p["i"] == 0:
            S.sample({"level": "C", "population_sizes": sizes, "records": len(cs.records), "stat_argv": b.argv, "stdout": b.out.decode().strip(),
                      "from_genotypes": {k: (None if v is None else float(v)) for k, v in exact.items() if k in names}})


def check_L(S, p):
    seed = S.seed
    reqs, meta = [], []
    for i in range(p["l"]):
        rng = rng_for(seed, "c06", p["name"], "L", i)
        n = rng.choice([3, 4, 5, 6, 7, 10, 20, 37, 100, 171, 172, 301, 600]) if rng.random() < 0.5 else rng.randint(3, 600)
        style = rng.choice(["random", "sparse", "singletons", "lastclass", "neutral", "fractional"])
        if style == "fractional":
            # a projected spectrum of a handful of variable sites: fractional entries, fewer than one (or a few) segregating sites in total
            n = rng.choice([4, 5, 6, 8, 10, 12, 20, 37])
            c = [0.0] * (n + 1)
            c[0] = float(rng.randrange(0, 1000))
            tot_ = rng.choice([0.05, 0.3, 0.6, 0.95, 1.0, 1.7, 2.5])
            w_ = [rng.random() for _ in range(n - 1)]
            for k_ in range(1, n):
                c[k_] = tot_ * w_[k_ - 1] / sum(w_) if rng.random() < 0.7 else 0.0
        elif style == "random":
            c = [rng.randrange(0, 500) for _ in range(n + 1)]
        elif style == "sparse":
            c = [rng.randrange(1, 50) if rng.random() < 0.1 else 0 for _ in range(n + 1)]
        elif style == "singletons":
            c = [rng.randrange(0, 5) for _ in range(n + 1)]
            c[1] = rng.randrange(50, 5000)
        elif style == "lastclass":
            c = [rng.randrange(0, 30) for _ in range(n + 1)]
            c[n] = rng.randrange(1, 10000)
        else:
            c = [0] + [max(0, int(1000 / k + rng.gauss(0, 3))) for k in range(1, n)] + [rng.randrange(0, 3)]
            c[0] = rng.randrange(0, 100000)
        reqs.append({"op": "spec", "do": "stats", "shape": [n + 1], "data": GS.hexes([float(x) for x in c])})
        meta.append((n, c, style))
    if p["i"] % 16 == 0:
        # a sample of more than 2^16 chromosomes (biobank scale): counters and products of the sample size must not wrap
        rng = rng_for(seed, "c06", p["name"], "huge")
        n = rng.choice([66000, 65537, 70001, 65600])
        c = [0] * (n + 1)
        for k in [1, 2, 3, n // 2, n - 1] + [rng.randrange(1, n) for _ in range(40)]:
            c[k] += rng.randrange(1, 500)
        c[1] += 3000
        reqs.append({"op": "spec", "do": "stats", "shape": [n + 1], "data": GS.hexes([float(x) for x in c])})
        meta.append((n, c, "huge"))
        S.count("L_huge_samples")
    for (n, c, style), r in zip(meta, harness.run_all(reqs, timeout=1200)):
        S.count("L_spectra")
        exact = OS.from_spectrum_1d(c) if n < 5000 else OS.from_spectrum_1d_float(c)
        wit = {"level": "L", "counts": c if n < 60 else c[:60], "n": n, "style": style}
        for nm in ("sum", "s", "pi", "theta", "d-tajima", "d-fu-li"):
            e = exact.get(nm)
            if e is None:
                S.count("undefined_skipped")
                continue
            S.count("stat_" + nm)
            v = r.get(nm, {})
            if "v" not in v:
                S.viol("C06:stat-fail:%s" % nm, "[L 1-D n=%d %s] %s failed: %s" % (n, style, nm, str(v)[:200]), wit)
            elif not close(h2f(v["v"]), e):
                S.viol("C06:published-formula:%s" % nm, "[L 1-D spectrum n=%d (%s)] %s = %.12g, published estimator gives %.12g" % (n, style, nm, h2f(v["v"]), float(e)), wit)
        S.case(key=digest(c), nontrivial=exact["s"] >= 2 and len(set(c)) > 2)


def check_L_large_joint(S, p):
    """Joint spectra with 2^14 and more cells (two to four populations of dozens to thousands of samples), sparse integer counts incl. the
    last rows / columns and the fixed-difference corners: f2, Fst, pi_xy, f3, f4, S, sum against the values computed from the sites."""
    import itertools
    rng = rng_for(S.seed, "c06", p["name"], "large-joint")
    shape = rng.choice([[129, 131], [150, 160], [3, 6001], [6001, 3], [3, 81, 83], [41, 3, 201], [3, 19, 19, 21], [9, 13, 11, 17], [257, 65]])
    d = len(shape)
    n = 1
    for x in shape:
        n *= x
    strides = [1] * d
    for j in range(d - 2, -1, -1):
        strides[j] = strides[j + 1] * shape[j + 1]
    cells = {}
    corners = [tuple(x - 1 if b else 0 for x, b in zip(shape, bits)) for bits in itertools.product([0, 1], repeat=d)]
    for ix in corners + [tuple(rng.randrange(x) for x in shape) for _ in range(60)] + [tuple(x - 1 - rng.randrange(min(2, x)) for x in shape) for _ in range(10)]:
        cells[ix] = cells.get(ix, 0) + rng.randint(1, 4)
    data = [0.0] * n
    sites = []
    for ix, c in cells.items():
        data[sum(a * b for a, b in zip(ix, strides))] = float(c)
        sites += [[(k, x - 1) for k, x in zip(ix, shape)]] * c
    r = harness.run_all([{"op": "spec", "do": "stats", "shape": shape, "data": GS.hexes(data)}], timeout=900)[0]
    exact = OS.from_genotypes(sites)
    S.count("L_large_joint_spectra")
    wit = {"level": "L", "shape": shape, "cells": [[list(ix), c] for ix, c in sorted(cells.items())]}
    for nm in STATS_BY_DIM[d]:
        e = exact.get(nm)
        if e is None:
            continue
        S.count("stat_" + nm)
        v = r.get(nm, {})
        if "v" not in v:
            S.viol("C06:stat-fail:%s" % nm, "[L joint spectrum %r] %s failed: %s" % (shape, nm, str(v)[:200]), wit)
        elif not close(h2f(v["v"]), e):
            S.viol("C06:site-definition:%s" % nm, "[L joint spectrum %r, %d sites in %d cells] %s = %.12g, from the sites %.12g" % (shape, len(sites), len(cells), nm, h2f(v["v"]), float(e)), wit)
    # the same spectrum through the binary, several statistics in one call, in a shuffled order, twice: columns in request order
    names = [nm for nm in STATS_BY_DIM[d] if exact.get(nm) is not None]
    rng.shuffle(names)
    inp = GS.npy_bytes(shape, data)
    for rep in range(2):
        b = cli.sfs(["stat", "-s", ",".join(names), "--precision", "12", "-H"], stdin=inp, timeout=300)
        S.count("C_large_joint_stat_runs")
        lines = b.out.decode().strip().split("\n") if b.rc == 0 else []
        if len(lines) != 2 or len(lines[0].split(",")) != len(names) or len(lines[1].split(",")) != len(names):
            S.viol("C06:format", "[C stat -s %s -H on joint spectrum %r] rc %s stdout %r stderr %r" % (",".join(names), shape, b.rc, b.out[:200], b.err[:200]), dict(wit, stat=b.brief()))
            continue
        for nm, tok in zip(names, lines[1].split(",")):
            try:
                g = float(tok)
            except ValueError:
                g = float("nan")
            if not close(g, exact[nm]):
                S.viol("C06:site-definition:%s" % nm, "[C stat -s %s on joint spectrum %r] column %s printed %s, from the sites %.12f" % (",".join(names), shape, nm, tok, float(exact[nm])), dict(wit, stat=b.brief()))
    S.case(key=digest(["large-joint", shape, sorted(cells.items())]), nontrivial=True)


def check_L_invariant_dominated(S, p):
    """Small joint spectra of two populations in which the invariant sites outnumber the variable ones by 10^3 .. 10^12 (a whole genome with a
    few dozen SNPs): f2 and pi_xy scale with the proportion of variable sites, Fst - a ratio - must not depend on the invariant count at all."""
    rng = rng_for(S.seed, "c06", p["name"], "invariant")
    reqs, meta = [], []
    for _ in range(6):
        n1, n2 = rng.randint(2, 9), rng.randint(2, 9)
        cells = {}
        for _ in range(rng.randint(3, 30)):
            ix = (rng.randint(0, n1), rng.randint(0, n2))
            if ix not in ((0, 0), (n1, n2)):
                cells[ix] = cells.get(ix, 0) + rng.randint(1, 3)
        if not cells:
            cells[(1, 0)] = 1
        cells[(0, 0)] = rng.choice([10 ** 3, 10 ** 6, 10 ** 9, 10 ** 12, 3 * 10 ** 10])
        if rng.random() < 0.5:
            cells[(n1, n2)] = rng.choice([10 ** 2, 10 ** 7])
        data = [0.0] * ((n1 + 1) * (n2 + 1))
        for (i_, j_), c_ in cells.items():
            data[i_ * (n2 + 1) + j_] = float(c_)
        reqs.append({"op": "spec", "do": "stats", "shape": [n1 + 1, n2 + 1], "data": GS.hexes(data)})
        meta.append((n1, n2, cells))
    for (n1, n2, cells), r in zip(meta, harness.run_all(reqs)):
        L = sum(cells.values())
        f2 = sum(Fraction(c_) * (Fraction(i_, n1) - Fraction(j_, n2)) ** 2 for (i_, j_), c_ in cells.items()) / L
        pixy = sum(Fraction(c_) * Fraction(i_ * (n2 - j_) + j_ * (n1 - i_), n1 * n2) for (i_, j_), c_ in cells.items())
        num = sum(Fraction(c_) * ((Fraction(i_, n1) - Fraction(j_, n2)) ** 2 - Fraction(i_, n1) * (1 - Fraction(i_, n1)) / (n1 - 1) - Fraction(j_, n2) * (1 - Fraction(j_, n2)) / (n2 - 1))
                  for (i_, j_), c_ in cells.items())
        den = sum(Fraction(c_) * (Fraction(i_, n1) * (1 - Fraction(j_, n2)) + Fraction(j_, n2) * (1 - Fraction(i_, n1))) for (i_, j_), c_ in cells.items())
        # Fst's numerator is a sum of terms of both signs: the error of a correct evaluation is relative to the sum of their MAGNITUDES
        num_abs = sum(Fraction(c_) * ((Fraction(i_, n1) - Fraction(j_, n2)) ** 2 + Fraction(i_, n1) * (1 - Fraction(i_, n1)) / (n1 - 1) + Fraction(j_, n2) * (1 - Fraction(j_, n2)) / (n2 - 1))
                      for (i_, j_), c_ in cells.items())
        exact = {"sum": Fraction(L), "f2": f2, "pi-xy": pixy, "fst": num / den if den else None}
        slack = {"fst": (num_abs / den) / 10 ** 9 if den else 0}
        S.count("L_invariant_dominated_spectra")
        wit = {"level": "L", "shape": [n1 + 1, n2 + 1], "cells": [[list(k_), v_] for k_, v_ in sorted(cells.items())]}
        for nm, e in exact.items():
            if e is None:
                continue
            S.count("stat_" + nm)
            v = r.get(nm, {})
            got = h2f(v["v"]) if "v" in v else float("nan")
            # relative: these values are tiny when invariant sites dominate, an absolute allowance would excuse anything
            if not (math.isfinite(got) and abs(Fraction(got) - e) <= abs(e) / 10 ** 9 + slack.get(nm, 0) + Fraction(1, 10 ** 30)):
                S.viol("C06:site-definition:%s" % nm, "[L joint spectrum %dx%d with %d invariant of %d sites] %s = %.12g, from the sites %.12g" % (
                    n1 + 1, n2 + 1, cells[(0, 0)], L, nm, got, float(e)), wit)
        S.case(key=digest(["invariant", n1, n2, sorted(cells.items())]), nontrivial=True)


def shard(S, p):
    if "replay" in p:
        S.inconc("witness carries the inputs for manual replay")
        return
    check_C(S, p)
    check_L_invariant_dominated(S, p)
    if p["i"] % 4 == 2:
        check_L_large_joint(S, p)
    check_L(S, p)
