"""C14 - statistics are invariant under the transformations that must not matter.

Metamorphic monitor over recorded results of the real code (L: Spectrum statistic methods composed
with marginalize / fold through the harness; C: `fold --fill zero | stat`, `view -m | stat`).
"""
import itertools, math
from .. import harness, cli
from ..common import rng_for, h2f, f2h, digest
from ..engines import create as E
from ..gen import spectra as GS
from ..oracle import spectrum as O

LEVEL = "exploration"
NEEDS = ["harness", "cli"]
RULE = ("positive random spectra with UNEQUAL axis lengths 2-7 (1-4 axes; 3x3 for kinship statistics; a sixth of the cases with thousands of entries, e.g. 17x17x17, 70x71, 8193); relations between recorded statistic values: "
        "f3/f4 vs the documented combinations of f2 on two-population marginals; invariance of pi, theta, S, D-Tajima, pi_xy, f2, f3, f4, Fst, KING, "
        "R0, R1 under fold(fill 0); independence of all but sum/f2/f3/f4 from the two monomorphic cells; invariance of f2, Fst, pi_xy, KING, R0, R1 "
        "under swapping the populations; scale invariance of f2, f3, f4, Fst, KING, R0, R1 and linear scaling of sum, S, pi, pi_xy, theta for "
        "c in 2^-70..2^40 (incl. factors that push the total below f64::EPSILON, and factors that bring the total to within 1e-9 .. 1e-2 of one); monomorphic cells up to 3e15. A frequency spectrum scaled in place and normalised again (library call history) gives the same frequencies. Allowance abs 1e-9 + rel 1e-9; relations whose value is non-finite (zero denominator) are skipped, except that with one NaN entry in a polymorphic cell a statistic must stay NaN (or stay the same finite number) under fold(fill 0). "
        "Non-trivial: every relation on a spectrum with unequal axes (or 1-D); distinct = digest(spectrum, relation).")
ASSUMPTIONS = ["relations are between outputs of the real code only; absolute correctness is C06's job"]
FLOORS = {"quick": {"evaluations": 1500, "distinct_nontrivial": 1000, "counts": {"rel_f3_f2": 60, "rel_f4_f2": 60, "rel_fold": 500, "rel_monomorphic": 500, "rel_swap": 200, "rel_scale": 500, "C_runs": 100, "large_spectra": 100, "C_large_spectra": 30}},
          "thorough": {"evaluations": 80000, "distinct_nontrivial": 60000, "counts": {"rel_f3_f2": 3000, "rel_f4_f2": 3000, "rel_fold": 30000, "rel_swap": 10000, "C_runs": 3000}}}
NSHARD = 32
FOLD_INV = {1: ["pi", "theta", "s", "d-tajima"], 2: ["pi-xy", "f2", "fst", "king", "r0", "r1", "s"], 3: ["f3", "s"], 4: ["f4", "s"]}
MONO_INV = {1: ["pi", "theta", "s", "d-tajima", "d-fu-li"], 2: ["pi-xy", "fst", "king", "r0", "r1", "s"], 3: ["s"], 4: ["s"]}
SWAP_INV = ["f2", "fst", "pi-xy", "king", "r0", "r1"]
SCALE_INV = ["f2", "f3", "f4", "fst", "king", "r0", "r1"]
SCALE_LIN = ["sum", "s", "pi", "pi-xy", "theta"]


def plan(tier, seed):
    q = tier == "quick"
    return [{"name": "s%d" % i, "i": i, "n": 24 if q else 4000, "c": 2 if q else 150} for i in range(NSHARD)]


def val(stats, name):
    v = stats.get(name, {})
    return h2f(v["v"]) if "v" in v else None


def same(a, b, scale=1.0):
    """abs 1e-12 + rel 1e-9 (of the larger of the two values and of `scale`): a statistic that is exactly 0 on one side
    may be a rounding residue of 1e-17 on the other."""
    if a is None or b is None or not math.isfinite(a) or not math.isfinite(b):
        return None        # undefined: skipped
    return abs(a - b) <= 1e-12 + 1e-9 * max(abs(a), abs(b), abs(scale))


def stats_req(shape, data):
    return {"op": "spec", "do": "stats", "shape": shape, "data": GS.hexes(data)}


def check_L(S, p):
    seed = S.seed
    for i in range(p["n"]):
        rng = rng_for(seed, "c14", p["name"], i)
        d = rng.choice([1, 2, 2, 2, 3, 4])
        if d == 2 and rng.random() < 0.35:
            shape = [3, 3]
        elif d == 1:
            shape = [rng.randint(3, 12)]
        else:
            shape = rng.sample(range(2, 8), d)
        if i % 6 == 4:
            # spectra with thousands of entries (counts not divisible by the usual block sizes): dozens of samples per population
            shape = {1: [rng.choice([4097, 5000, 8193])], 2: rng.choice([[70, 71], [65, 130], [33, 257], [300, 17], [129, 131], [150, 160], [3, 6001], [6001, 3]]),
                     3: rng.choice([[17, 17, 17], [18, 17, 19], [9, 33, 21], [3, 81, 83]]), 4: rng.choice([[9, 8, 9, 8], [5, 11, 7, 13], [17, 4, 5, 16], [3, 19, 19, 21]])}[d]
            S.count("large_spectra")
        n = O.prod(shape)
        data = [rng.uniform(0.01, 100) for _ in range(n)]
        if rng.random() < 0.3:
            data = [float(int(x)) + 1 for x in data]
        wit = {"level": "L", "shape": shape, "data": GS.hexes(data)}
        c = rng.choice([2.0 ** -20, 0.001, 0.5, 3.0, 10.0 ** 6, rng.uniform(0.1, 1000), 2.0 ** -64, 2.0 ** -70, 2.0 ** 40])
        if i % 4 == 3:
            # a factor that makes the scaled spectrum ALMOST a frequency spectrum: its total lands within 1e-9 .. 1e-2 of one
            delta = rng.choice([1e-9, 1e-7, 1e-6, 3e-6, 1e-5, 1e-4, 4e-4, 1e-3, 1e-2, 2e-7 * n]) * rng.choice([1, -1])
            c = (1.0 + delta) / sum(data)
            S.count("nearly_normalised_scalings")
        mono = list(data)
        mono[0] = rng.choice([rng.uniform(0, 1e5), 1e12 + 0.3, 3.3e15, 2.0 ** 53 + 2, 0.0])
        mono[-1] = rng.choice([rng.uniform(0, 1e5), 7e13 + 0.7, 1.1e15, 0.0])
        reqs = [stats_req(shape, data),
                {"op": "spec", "do": "fold", "shape": shape, "data": GS.hexes(data), "fill": f2h(0.0)},
                stats_req(shape, mono),
                stats_req(shape, [x * c for x in data])]
        if d == 2:
            ts, td = O.transpose(shape, data, [1, 0])
            reqs.append(stats_req(ts, td))
        if d >= 3:
            for pair in itertools.combinations(range(d), 2):
                rem = [j for j in range(d) if j not in pair]
                reqs.append({"op": "spec", "do": "marginalize", "shape": shape, "data": GS.hexes(data), "axes": rem})
        res = harness.run_all(reqs)
        base = res[0]
        if any("panic" in r or r.get("died") for r in res):
            S.viol("C14:panic", "[L shape %r] a call panicked: %s" % (shape, str([r for r in res if "panic" in r][:1])[:300]), wit)
            continue
        if i == 0 and p["i"] < 2:
            S.sample({"level": "L", "shape": shape, "data_head": data[:6], "scale_factor": c,
                      "statistics": {k: (h2f(v["v"]) if "v" in v else v.get("err")) for k, v in base.items() if k != "id"}})
        # fold
        folded = res[1]
        fres = harness.run_all([{"op": "spec", "do": "stats", "shape": folded["shape"], "data": folded["data"]}])[0]
        for nm in FOLD_INV[d]:
            ok = same(val(base, nm), val(fres, nm), scale=abs(val(base, nm) or 0))
            if ok is None:
                S.count("undefined_skipped")
                continue
            S.count("rel_fold")
            if not ok:
                S.viol("C14:fold:%s" % nm, "[L shape %r] %s changes under fold with fill zero: %.12g -> %.12g" % (shape, nm, val(base, nm), val(fres, nm)), wit)
            S.case(key=digest([shape, wit["data"][:50], "fold", nm]), nontrivial=True)
        # an entry that is not a number (an unknown count stored as NaN) in a polymorphic cell: a statistic that is NaN before folding
        # stays NaN, one that is finite stays the same number - "unchanged" includes staying undefined
        if i % 5 == 2 and n > 3:
            xn = list(data)
            xn[rng.randrange(1, n - 1)] = float("nan")
            rn = harness.run_all([stats_req(shape, xn), {"op": "spec", "do": "fold", "shape": shape, "data": GS.hexes(xn), "fill": f2h(0.0)}])
            if "data" in rn[1]:
                fn = harness.run_all([{"op": "spec", "do": "stats", "shape": rn[1]["shape"], "data": rn[1]["data"]}])[0]
                for nm in FOLD_INV[d]:
                    a_, b_ = val(rn[0], nm), val(fn, nm)
                    if a_ is None or b_ is None:
                        continue
                    S.count("rel_fold_nan_entry")
                    if math.isnan(a_) != math.isnan(b_) or (math.isfinite(a_) and math.isfinite(b_) and not same(a_, b_, scale=abs(a_))):
                        S.viol("C14:fold-nan:%s" % nm, "[L shape %r with one NaN entry] %s changes under fold with fill zero: %r -> %r" % (shape, nm, a_, b_), dict(wit, nan_data=GS.hexes(xn)))
        # a frequency spectrum edited in place (every entry times c) and normalised again: the same frequencies as before
        if i % 3 == 1:
            from fractions import Fraction as _F
            nh = harness.run_all([{"op": "spec", "do": "normalize_history", "shape": shape, "data": GS.hexes(data), "c": f2h(rng.choice([8.0, 0.5, 3.0, c]))}])[0]
            S.count("rel_normalise_history")
            if "data" not in nh:
                S.viol("C14:normalise-history", "[L shape %r] normalise, scale in place, normalise again failed: %s" % (shape, str(nh)[:200]), wit)
            else:
                tot_ = sum(_F(x) for x in data)
                badn = [(j, h2f(g_), float(_F(x) / tot_)) for j, (g_, x) in enumerate(zip(nh["data"], data))
                        if not math.isfinite(h2f(g_)) or abs(_F(h2f(g_)) - _F(x) / tot_) > (_F(x) / tot_) / 10 ** 9 + _F(1, 10 ** 18)]
                if badn:
                    S.viol("C14:normalise-history", "[L shape %r] normalise, multiply every entry in place, normalise again: (flat, got, expected frequency) %r" % (shape, badn[:4]), wit)
        # monomorphic cells
        for nm in MONO_INV[d]:
            ok = same(val(base, nm), val(res[2], nm), scale=abs(val(base, nm) or 0))
            if ok is None:
                S.count("undefined_skipped")
                continue
            S.count("rel_monomorphic")
            if not ok:
                S.viol("C14:monomorphic:%s" % nm, "[L shape %r] %s depends on the monomorphic cells: %.12g vs %.12g after changing x[0], x[last]" % (shape, nm, val(base, nm), val(res[2], nm)), wit)
            S.case(key=digest([shape, wit["data"][:50], "mono", nm]), nontrivial=True)
        # scale
        for nm in SCALE_INV + SCALE_LIN:
            a, b = val(base, nm), val(res[3], nm)
            if a is None or b is None:
                continue
            want = a if nm in SCALE_INV else a * c
            ok = same(want, b, scale=abs(want))
            if ok is None:
                S.count("undefined_skipped")
                continue
            S.count("rel_scale")
            if not ok:
                S.viol("C14:scale:%s" % nm, "[L shape %r] multiplying the spectrum by %g: %s %.12g -> %.12g (expected %.12g)" % (shape, c, nm, a, b, want), wit)
            S.case(key=digest([shape, wit["data"][:50], "scale", nm, c]), nontrivial=True)
        # swap
        if d == 2:
            for nm in SWAP_INV:
                ok = same(val(base, nm), val(res[4], nm), scale=abs(val(base, nm) or 0))
                if ok is None:
                    S.count("undefined_skipped")
                    continue
                S.count("rel_swap")
                if not ok:
                    S.viol("C14:swap:%s" % nm, "[L shape %r] %s changes when the two populations are swapped: %.12g vs %.12g" % (shape, nm, val(base, nm), val(res[4], nm)), wit)
                S.case(key=digest([shape, wit["data"][:50], "swap", nm]), nontrivial=shape[0] != shape[1])
        # f3 / f4 from f2 of the marginals
        if d >= 3:
            pairs = list(itertools.combinations(range(d), 2))
            margs = res[4:4 + len(pairs)] if d != 2 else []
            f2s = harness.run_all([{"op": "spec", "do": "stats", "shape": m["shape"], "data": m["data"]} for m in margs])
            f2 = {pair: val(s, "f2") for pair, s in zip(pairs, f2s)}
            if d == 3:
                got = val(base, "f3")
                want = 0.5 * (f2[(0, 1)] + f2[(0, 2)] - f2[(1, 2)])
                S.count("rel_f3_f2")
                if not same(got, want, scale=max(f2.values())):
                    S.viol("C14:f3-from-f2", "[L shape %r] f3 = %.12g but (f2(A,B)+f2(A,C)-f2(B,C))/2 = %.12g" % (shape, got, want), wit)
            else:
                got = val(base, "f4")
                want = 0.5 * (f2[(0, 3)] + f2[(1, 2)] - f2[(0, 2)] - f2[(1, 3)])
                S.count("rel_f4_f2")
                if not same(got, want, scale=max(f2.values())):
                    S.viol("C14:f4-from-f2", "[L shape %r] f4 = %.12g but (f2(A,D)+f2(B,C)-f2(A,C)-f2(B,D))/2 = %.12g" % (shape, got, want), wit)
            S.case(key=digest([shape, wit["data"][:50], "f2comb"]), nontrivial=True)
            if i < 3 and p["i"] == 0:
                S.sample({"level": "L", "shape": shape, "statistic": "f3" if d == 3 else "f4", "value": got, "from_f2_of_marginals": want, "f2": {str(k): v for k, v in f2.items()}})


def check_C(S, p):
    seed = S.seed
    for i in range(p["c"]):
        rng = rng_for(seed, "c14", p["name"], "C", i)
        d = rng.choice([1, 2, 3])
        shape = [rng.randint(3, 9)] if d == 1 else rng.sample(range(2, 7), d)
        if i == 1:
            # once per shard: a spectrum with 2^14 and more entries through the binary (several statistics in one call)
            shape = {1: [rng.choice([16385, 20001])], 2: rng.choice([[129, 131], [150, 160], [3, 6001]]), 3: rng.choice([[3, 81, 83], [27, 25, 29]])}[d]
            S.count("C_large_spectra")
        data = [rng.uniform(0.5, 50) for _ in range(O.prod(shape))]
        inp = GS.npy_bytes(shape, data)
        names = {1: "pi,theta,s,d-tajima", 2: "pi-xy,f2,fst,s", 3: "f3,s"}[d]
        a = cli.sfs(["stat", "-s", names, "--precision", "10"], stdin=inp)
        f = cli.sfs(["fold", "--fill", "zero", "--precision", "17"], stdin=inp)
        b = cli.sfs(["stat", "-s", names, "--precision", "10"], stdin=f.out)
        S.count("C_runs", 3)
        wit = {"level": "C", "input_b64": E.b64(inp), "a": a.brief(), "b": b.brief()}
        if a.rc or f.rc or b.rc:
            S.viol("C14:cli-fail", "[C shape %r] rc %s %s %s: %r" % (shape, a.rc, f.rc, b.rc, (a.err + f.err + b.err)[:200]), wit)
            continue
        for nm, x, y in zip(names.split(","), a.out.decode().strip().split(","), b.out.decode().strip().split(",")):
            ok = same(float(x), float(y), scale=abs(float(x)))
            if ok is False:
                S.viol("C14:fold:cli:%s" % nm, "[C shape %r] `fold --fill zero | stat -s %s` gives %s, without folding %s" % (shape, nm, y, x), wit)
        # scaling at the CLI, statistics mixed in ONE call (count-based and frequency-based together)
        cfac = rng.choice([0.5, 3.0, 1000.0])
        mixed = {1: "sum,pi,s,theta", 2: "f2,sum,fst,s,pi-xy", 3: "f3,sum,s"}[d]
        x1 = cli.sfs(["stat", "-s", mixed, "--precision", "10"], stdin=inp)
        x2 = cli.sfs(["stat", "-s", mixed, "--precision", "10"], stdin=GS.npy_bytes(shape, [v * cfac for v in data]))
        S.count("C_runs", 2)
        if x1.rc == 0 and x2.rc == 0:
            for nm, u, v in zip(mixed.split(","), x1.out.decode().strip().split(","), x2.out.decode().strip().split(",")):
                want = float(u) * (cfac if nm in SCALE_LIN else 1.0)
                S.count("rel_scale")
                if same(want, float(v), scale=abs(want) + 1e-6) is False:
                    S.viol("C14:scale:cli:%s" % nm, "[C shape %r] `stat -s %s`: %s is %s on x and %s on %g*x (expected %.10g)" % (shape, mixed, nm, u, v, cfac, want), wit)
        else:
            S.viol("C14:cli-fail", "[C shape %r] stat -s %s failed: %r" % (shape, mixed, (x1.err + x2.err)[:200]), wit)
        if d == 3:
            f2 = {}
            for pair in ((0, 1), (0, 2), (1, 2)):
                rem = [j for j in range(3) if j not in pair][0]
                m = cli.sfs(["view", "-m", str(rem), "-O", "npy"], stdin=inp)
                s2 = cli.sfs(["stat", "-s", "f2", "--precision", "12"], stdin=m.out)
                S.count("C_runs", 2)
                f2[pair] = float(s2.out.decode().strip()) if s2.rc == 0 else float("nan")
            got = float(a.out.decode().split(",")[0])
            want = 0.5 * (f2[(0, 1)] + f2[(0, 2)] - f2[(1, 2)])
            if same(got, want, scale=max(f2.values())) is False:
                S.viol("C14:f3-from-f2:cli", "[C shape %r] f3 %.10g vs combination of f2 of `view -m` marginals %.10g" % (shape, got, want), wit)
        S.case(key=digest([shape, GS.hexes(data)[:40], "C"]), nontrivial=True)


def shard(S, p):
    if "replay" in p:
        S.inconc("witness carries the spectrum for manual replay")
        return
    check_L(S, p)
    check_C(S, p)
