"""Spectrum workload generators."""
import itertools, math, struct
from ..common import f2h

SPECIAL = [0.0, -0.0, 5e-324, -5e-324, 2.2250738585072014e-308, 1e300, -1e300, 1e-300, float("inf"), float("-inf"),
           float("nan"), 1.7976931348623157e308, 0.1, 1 / 3, 123456789.125, -2.5] + \
          [struct.unpack("<d", struct.pack("<Q", b_))[0] for b_ in
           # NaNs with payloads: R's NA_real_ (signalling, payload 1954) and its quieted form, a quiet NaN with payload 1, the negative quiet NaN
           (0x7FF00000000007A2, 0x7FF80000000007A2, 0x7FF8000000000001, 0xFFF8000000000000)]


def random_shape(rng, min_axes=1, max_axes=4, max_len=7, min_len=1, unequal=False):
    d = rng.randint(min_axes, max_axes)
    for _ in range(50):
        shape = [rng.randint(min_len, max_len) for _ in range(d)]
        if not unequal or d == 1 or len(set(shape)) > 1:
            return shape
    return shape


def values(rng, n, kind):
    if kind == "int":
        return [float(rng.randrange(0, 1000)) for _ in range(n)]
    if kind == "bigint":
        return [float(rng.randrange(0, 2 ** 40)) for _ in range(n)]
    if kind == "signed":
        return [float(rng.randrange(-500, 500)) for _ in range(n)]
    if kind == "dyadic":
        return [rng.randrange(-4000, 4000) / 8.0 for _ in range(n)]
    if kind == "real":
        return [rng.uniform(0, 100) for _ in range(n)]
    if kind == "positive":
        return [rng.uniform(0.001, 100) for _ in range(n)]
    if kind == "wide":
        return [math.ldexp(rng.uniform(0.5, 1), rng.randint(-60, 60)) * rng.choice([1, 1, -1]) for _ in range(n)]
    if kind == "sparse":
        return [float(rng.randrange(1, 50)) if rng.random() < 0.2 else 0.0 for _ in range(n)]
    if kind == "ws-top-byte":
        # doubles whose most significant byte (the LAST byte of a little-endian npy file when the value is last) is ASCII whitespace
        tops = [0x20, 0x09, 0x0A, 0x0B, 0x0C, 0x0D]
        vals = [rng.uniform(0, 100) for _ in range(n)]
        for j in range(max(1, n // 4)):
            b = bytes(rng.randrange(256) for _ in range(7)) + bytes([rng.choice(tops)])
            vals[rng.randrange(n)] = struct.unpack("<d", b)[0]
        vals[-1] = struct.unpack("<d", bytes(rng.randrange(256) for _ in range(7)) + bytes([rng.choice(tops)]))[0]
        return vals
    if kind == "extreme":
        # ONE entry near the top of the f64 range (often in a monomorphic corner, where invariant sites pile up) next to ordinary or very
        # small ones: every target cell that the huge entry does not feed must still come out right
        tiny = rng.choice([1.0, 1.0, 1e-10, 1e-20])
        out = [rng.uniform(0.5, 50) * tiny for _ in range(n)]
        out[rng.choice([0, 0, n - 1, rng.randrange(n)])] = math.ldexp(rng.uniform(0.5, 1), rng.choice([1023, 1023, 1020, 1010, 1000]))
        return out
    if kind == "special":
        return [rng.choice(SPECIAL) if rng.random() < 0.5 else rng.uniform(-10, 10) for _ in range(n)]
    raise ValueError(kind)


def hexes(vals):
    return [f2h(v) for v in vals]


def all_shapes(max_axes, max_len, min_len=1):
    for d in range(1, max_axes + 1):
        for s in itertools.product(range(min_len, max_len + 1), repeat=d):
            yield list(s)


def text_spectrum(shape, vals, precision=6):
    return ("#SHAPE=<%s>\n%s\n" % ("/".join(map(str, shape)), " ".join("%.*f" % (precision, v) for v in vals))).encode()


def npy_bytes(shape, vals, descr="<f8", version=(1, 0), fortran=False):
    import numpy as np, io
    from numpy.lib import format as nf
    a = np.array(vals, dtype=np.float64).astype(np.dtype(descr)).reshape(shape)
    if fortran:
        a = np.asfortranarray(a)
    buf = io.BytesIO()
    nf.write_array(buf, a, version=version)
    return buf.getvalue()
