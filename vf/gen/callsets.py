"""Random call-set, sample-map and projection-target generators."""
from .vcfgen import CallSet, Record, gt

NAME_CHARS = "ABCDEFGHIJKLMNOPQRSTUVWXYZabcdefghijklmnopqrstuvwxyz0123456789_.-"

# (alleles, weight); phasing is drawn separately
GT_COMPLETE = [((0, 0), 6), ((0, 1), 4), ((1, 0), 3), ((1, 1), 4)]
GT_MISSING = [((None, None), 5), ((None, 0), 1), ((1, None), 1), ((None, 1), 1), ((0, None), 1)]
GT_MULTI = [((0, 2), 2), ((2, 0), 2), ((1, 2), 2), ((2, 2), 1), ((0, 3), 1), ((2, 1), 1), ((3, 3), 1)]
GT_JUNK_PLOIDY = [((0,), 2), ((1,), 2), ((0, 0, 1), 1), ((1, 1, 1), 1), ((0, None, 1), 1), ((2,), 1)]


def wchoice(rng, table):
    tot = sum(w for _, w in table)
    x = rng.uniform(0, tot)
    for v, w in table:
        x -= w
        if x <= 0:
            return v
    return table[-1][0]


def sample_names(rng, n):
    names = set()
    out = []
    style = rng.randrange(4)
    for i in range(n):
        while True:
            if style == 0:
                nm = "s%d" % i
            elif style == 1:
                nm = "sample%02d" % i
            elif style == 2:
                nm = "".join(rng.choice(NAME_CHARS) for _ in range(rng.randint(1, 8)))
                if nm.startswith("-") or nm.startswith("."):   # would look like an option / odd token on argv
                    nm = "x" + nm
            else:
                nm = "%s_%d" % (rng.choice(["NA", "HG", "ind", "X"]), rng.randrange(100000))
            if nm not in names:
                names.add(nm)
                out.append(nm)
                break
            style = 2
    if n and rng.random() < 0.12:
        # a sample whose name looks like a column header, a missing-value token or a keyword
        w = rng.choice(WORDLIKE_NAMES)
        if w not in names:
            out[rng.randrange(n)] = w
    return out


WORDLIKE_NAMES = ["sample", "SAMPLE", "Sample", "#sample", "NA", "population", "id", "ID", "name", "0", "1", "nan", "null", "None", "unnamed", "sample_id"]
WORDLIKE_LABELS = ["[unnamed]", "NA", "na", "NaN", "null", "None", "unnamed", "0", "1", "population", "pop", "sample"]


def random_gt(rng, kind, max_allele):
    """kind: complete | missing | multi"""
    if kind == "complete":
        alleles = wchoice(rng, GT_COMPLETE)
    elif kind == "missing":
        alleles = wchoice(rng, GT_MISSING)
    else:
        alleles = wchoice(rng, [(a, w) for a, w in GT_MULTI if max(x for x in a if x is not None) <= max_allele] or [((0, 2), 1)])
    return gt(alleles, rng.random() < 0.3)


def random_callset(rng, nsamples=None, nrecords=None, p_missing=None, p_multi=None, extras=True, junk_cols=None,
                   allow_ploidy_junk=False, complete_only=False):
    """junk_cols: set of sample column indices whose genotypes are replaced by anything (incl. other
    ploidies if allow_ploidy_junk) - used for 'unselected samples never influence the result'."""
    ns = nsamples if nsamples is not None else rng.choice([1, 2, 3, 4, 5, 6, 8, 10, 14, 20, 40])
    nr = nrecords if nrecords is not None else rng.choice([0, 1, 2, 3, 5, 8, 13, 21, 40, 80, 200])
    samples = sample_names(rng, ns)
    ncontig = rng.randint(1, 3)
    contigs = [(rng.choice(["chr", "", "ctg", "scaffold_"]) + str(i + 1), 10 ** 6) for i in range(ncontig)]
    if p_missing is None:
        p_missing = rng.choice([0.0, 0.0, 0.02, 0.1, 0.3])
    if p_multi is None:
        p_multi = rng.choice([0.0, 0.0, 0.02, 0.1])
    if complete_only:
        p_missing = p_multi = 0.0
    info_defs, fmt_defs = {}, {"GT": ("1", "String")}
    use_info = extras and rng.random() < 0.5
    use_fmt = extras and rng.random() < 0.5
    if use_info:
        info_defs = {"DP": ("1", "Integer"), "AF": ("A", "Float"), "DB": ("0", "Flag"), "XL": (".", "Integer")}
    if use_fmt:
        fmt_defs.update({"AD": ("R", "Integer"), "DP": ("1", "Integer"), "GQ": ("1", "Integer"), "PGT": ("1", "String"), "PID": ("1", "String"), "FT": ("1", "String")})
    filters = ["PASS", "q10"] if rng.random() < 0.3 else ["PASS"]
    records = []
    pos = {c: 0 for c, _ in contigs}
    ci = 0
    for _ in range(nr):
        if rng.random() < 0.1 and ci < ncontig - 1:
            ci += 1
        contig = contigs[ci][0]
        # several records may share one position (split multiallelic sites, overlapping indels)
        pos[contig] += 0 if (pos[contig] > 0 and rng.random() < 0.08) else rng.randint(1, 50)
        style = rng.random()
        if style < 0.08 and not complete_only:
            alts, max_allele = [], 0          # monomorphic record without ALT
        elif style < 0.25:
            alts, max_allele = rng.choice([["C", "G"], ["T", "<DEL>"], ["G", "GA", "GAA"]]), 3
        else:
            alts, max_allele = [rng.choice(["C", "G", "T"])], 1
        max_allele = len(alts)
        all_missing = (not complete_only) and rng.random() < 0.03
        gts = []
        for si in range(ns):
            if junk_cols and si in junk_cols:
                r = rng.random()
                if allow_ploidy_junk and r < 0.3:
                    from .callsets import GT_JUNK_PLOIDY as J
                    a = wchoice(rng, [(x, w) for x, w in J if max([y for y in x if y is not None] + [0]) <= max(1, max_allele)])
                    gts.append(gt(a, rng.random() < 0.5))
                elif r < 0.6:
                    gts.append(random_gt(rng, "missing", max_allele))
                elif max_allele >= 2:
                    gts.append(random_gt(rng, "multi", max_allele))
                else:
                    gts.append(random_gt(rng, "complete", max_allele))
                continue
            r = rng.random()
            if all_missing or r < p_missing:
                g = random_gt(rng, "missing", max_allele)
            elif r < p_missing + p_multi and max_allele >= 2:
                g = random_gt(rng, "multi", max_allele)
            else:
                g = random_gt(rng, "complete", max_allele)
                if max_allele == 0:
                    g = gt((0, 0), g[1][0])
            gts.append(g)
        info = {}
        if use_info and rng.random() < 0.7:
            info["DP"] = rng.randrange(0, 5000)
            if alts and rng.random() < 0.7:
                info["AF"] = [round(rng.random(), 3) for _ in alts]
            if rng.random() < 0.3:
                info["DB"] = True
            if rng.random() < 0.2:
                # a vector of 15 or more values: BCF needs the extended length encoding (0xF? descriptor + typed length)
                info["XL"] = [rng.randrange(-100, 40000) for _ in range(rng.choice([14, 15, 16, 31, 40]))]
        extra_fmt = {}
        if use_fmt and rng.random() < 0.8:
            extra_fmt["DP"] = [None if rng.random() < 0.1 else rng.randrange(0, 300) for _ in range(ns)]
            if rng.random() < 0.6:
                extra_fmt["GQ"] = [None if rng.random() < 0.2 else rng.randrange(0, 99) for _ in range(ns)]
        no_gt = False
        if use_fmt and not complete_only and rng.random() < 0.05:
            # a record whose FORMAT has no GT key at all (valid): every sample is missing
            no_gt = True
            gts = [gt((None, None), False) for _ in range(ns)]
            r_ = rng.random()
            if r_ < 0.25:
                extra_fmt = {"DP": [rng.randrange(0, 300) for _ in range(ns)]}
            elif r_ < 0.5:
                # a String-typed first field whose values look like genotypes (GATK's physical phasing fields) or like nothing of the kind
                if rng.random() < 0.6:
                    extra_fmt = {"PGT": [rng.choice(["0|1", "1|0", "1|1", "0|1", "."]) for _ in range(ns)], "PID": ["%d_A_C" % pos[contig] for _ in range(ns)]}
                else:
                    extra_fmt = {"FT": [rng.choice(["PASS", "lowGQ", "."]) for _ in range(ns)], "DP": [rng.randrange(0, 300) for _ in range(ns)]}
            elif r_ < 0.65:
                extra_fmt = {}              # no FORMAT field at all (FORMAT '.', every sample '.'; in BCF n_fmt = 0)
            else:
                # two small integers per sample as the first FORMAT field: byte-compatible with an int8 diploid GT vector
                extra_fmt = {"AD": [[rng.choice([2, 3, 4, 5]), rng.choice([2, 3, 4, 5])] for _ in range(ns)], "DP": [rng.randrange(0, 300) for _ in range(ns)]}
        if records and not no_gt and rng.random() < 0.05 and records[-1].contig == contig and not records[-1].no_gt:
            # the previous record once more: same contig, same position, same calls (an overlapping indel, a split multiallelic site,
            # a record present in two merged files) - it counts again
            prev = records[-1]
            pos[contig] = prev.pos
            gts, alts = list(prev.gts), list(prev.alts)
        rec = Record(contig, pos[contig], gts, ref=rng.choice(["A", "C", "G", "T", "AT"]), alts=alts, no_gt=no_gt,
                     id="." if rng.random() < 0.7 else "rs%d" % rng.randrange(10 ** 6),
                     qual=None if rng.random() < 0.6 else rng.choice([0, 10, 29.5, 100, 3000]),
                     filt=None if rng.random() < 0.6 else ([rng.choice(filters)]),
                     info=info, extra_fmt=extra_fmt)
        records.append(rec)
    cs_ = CallSet(samples, contigs, records, info_defs=info_defs, fmt_defs=fmt_defs, filters=filters,
                  version=rng.choice(["4.3", "4.3", "4.2", "4.2", "4.1", "4.4"]))
    # a fifth of the call sets write some genotypes with the VCF 4.4 leading separator (text only; the genotype is the same)
    cs_.lead_sep = rng.choice([0, 0, 0, 0, 0, 0, 0, 0, 2, 5])
    cs_.bare_dot = rng.choice([0, 0, 0, 0, 1, 2, 3])       # fully missing samples written as a bare '.' column (VCF text only)
    if len(contigs) >= 2 and rng.random() < 0.4:
        # BCF only: the ##contig lines carry IDX= values that are not in line order
        cs_.contig_perm = rng.sample(range(len(contigs)), len(contigs))
    return cs_


def random_sample_map(rng, samples, npops=None, subset=True):
    """[(sample, population or None)] in a random listing order; every population non-empty."""
    n = len(samples)
    k = rng.randint(1, n) if subset else n
    chosen = rng.sample(samples, k)
    npops = npops if npops is not None else rng.randint(1, min(4, k))
    npops = min(npops, k)
    labels = rng.sample(["A", "B", "popC", "D_4", "e", "YRI", "CEU", "x.y", "P-1", "East Asia", "East Africa"], npops)
    if rng.random() < 0.25:
        # a label that looks like the tool's own name for the unnamed population, a missing-value token or a keyword
        labels[rng.randrange(npops)] = rng.choice(WORDLIKE_LABELS)
    if rng.random() < 0.3:
        j_ = rng.randrange(npops)
        if npops == 1 or labels[j_] not in WORDLIKE_LABELS or rng.random() < 0.3:
            labels[j_] = None          # one unnamed population (often next to a word-like label)
        else:
            labels[(j_ + 1) % npops] = None
    assign = [labels[i] for i in range(npops)] + [rng.choice(labels) for _ in range(k - npops)]
    rng.shuffle(assign)
    out = list(zip(chosen, assign))
    wl = [i for i, (s_, _) in enumerate(out) if s_ in WORDLIKE_NAMES]
    if wl and rng.random() < 0.6:
        out.insert(0, out.pop(wl[0]))     # a word-like sample name on the first line of the list
    return out


def map_to_arg(sample_map):
    return ",".join(s if p is None else "%s=%s" % (s, p) for s, p in sample_map)


def map_to_file(sample_map):
    return "".join((s if p is None else "%s\t%s" % (s, p)) + "\n" for s, p in sample_map).encode()


def pop_sizes(sample_map):
    pops = []
    for _, p in sample_map:
        if p not in pops:
            pops.append(p)
    return [sum(1 for _, q in sample_map if q == p) for p in pops]


def random_project(rng, sample_map, boundary_bias=True):
    """Target chromosome counts m_j in 0..2n_j."""
    out = []
    for z in pop_sizes(sample_map):
        full = 2 * z
        r = rng.random()
        if r < 0.15:
            out.append(full)
        elif r < 0.25:
            out.append(0)
        elif r < 0.35:
            out.append(max(0, full - 1))
        elif r < 0.45:
            out.append(min(full, 1))
        else:
            out.append(rng.randint(0, full))
    return out
