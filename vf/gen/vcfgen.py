"""Call-set model and encoders written for this project: VCF 4.3 text, BCF 2.2, BGZF.

The encoders are the *workload* side of the monitors; they are checked against the repository's own
fixtures by vf.selftest (simple.vcf re-encoded as BCF/BGZF must give the golden spectra).
"""
import struct, zlib

MISSING = None


class Record:
    __slots__ = ("contig", "pos", "id", "ref", "alts", "qual", "filt", "info", "gts", "extra_fmt", "no_gt")

    def __init__(self, contig, pos, gts, ref="A", alts=("C",), id=".", qual=None, filt=None, info=None, extra_fmt=None, no_gt=False):
        # no_gt: the record has FORMAT fields but no GT key (valid VCF/BCF); `gts` must then be all-missing diploid genotypes
        self.no_gt = no_gt
        self.contig, self.pos, self.gts = contig, pos, gts
        self.ref, self.alts, self.id, self.qual, self.filt = ref, list(alts), id, qual, filt
        self.info = info or {}            # {"DP": 12, "AF": [0.5], "DB": True}
        self.extra_fmt = extra_fmt or {}  # {"DP": [per-sample int or None], "GQ": [...]}


def gt(alleles, phased=False):
    """A genotype: (tuple of allele indices or None, tuple of phase flags between alleles)."""
    alleles = tuple(alleles)
    if isinstance(phased, bool):
        phased = (phased,) * max(0, len(alleles) - 1)
    return (alleles, tuple(phased))


def gt_str(g):
    alleles, ph = g
    s = "." if alleles[0] is None else str(alleles[0])
    for a, p in zip(alleles[1:], ph):
        s += ("|" if p else "/") + ("." if a is None else str(a))
    return s


def parse_gt(s):
    alleles, ph, cur = [], [], ""
    for ch in s:
        if ch in "/|":
            alleles.append(None if cur == "." else int(cur))
            ph.append(ch == "|")
            cur = ""
        else:
            cur += ch
    alleles.append(None if cur == "." else int(cur))
    return (tuple(alleles), tuple(ph))


class CallSet:
    def __init__(self, samples, contigs, records, info_defs=None, fmt_defs=None, filters=None, version="4.3"):
        self.version = version
        self.samples = list(samples)
        self.contigs = list(contigs)            # [(name, length)]
        self.records = list(records)
        # ordered definitions: name -> (Number, Type)
        self.info_defs = info_defs if info_defs is not None else {}
        self.fmt_defs = fmt_defs if fmt_defs is not None else {"GT": ("1", "String")}
        self.filters = filters if filters is not None else ["PASS"]

    def contig_idx_of(self):
        """BCF dictionary index of contig k. Normally k; `contig_perm` (a permutation) makes the IDX= values of the ##contig lines
        differ from their line order - legal, the IDX value is what records refer to."""
        perm = getattr(self, "contig_perm", None)
        return list(perm) if perm and len(perm) == len(self.contigs) else list(range(len(self.contigs)))

    # ------------------------------------------------------------------ header
    def header_lines(self, bcf=False):
        L = ["##fileformat=VCFv%s" % self.version]
        idx = 0
        dict_idx = {}
        for f in self.filters:
            desc = "All filters passed" if f == "PASS" else "filter " + f
            L.append('##FILTER=<ID=%s,Description="%s"%s>' % (f, desc, ",IDX=%d" % idx if bcf else ""))
            dict_idx[f] = idx
            idx += 1
        perm = self.contig_idx_of()
        for ci, (name, length) in enumerate(self.contigs):
            L.append("##contig=<ID=%s,length=%d%s>" % (name, length, ",IDX=%d" % perm[ci] if bcf else ""))
        for k, (num, typ) in self.info_defs.items():
            if k not in dict_idx:
                dict_idx[k] = idx
                idx += 1
            L.append('##INFO=<ID=%s,Number=%s,Type=%s,Description="info %s"%s>' % (k, num, typ, k, ",IDX=%d" % dict_idx[k] if bcf else ""))
        for k, (num, typ) in self.fmt_defs.items():
            if k not in dict_idx:
                dict_idx[k] = idx
                idx += 1
            L.append('##FORMAT=<ID=%s,Number=%s,Type=%s,Description="format %s"%s>' % (k, num, typ, k, ",IDX=%d" % dict_idx[k] if bcf else ""))
        cols = "#CHROM\tPOS\tID\tREF\tALT\tQUAL\tFILTER\tINFO"
        if self.samples:
            cols += "\tFORMAT\t" + "\t".join(self.samples)
        L.append(cols)
        return L, dict_idx

    # ------------------------------------------------------------------ VCF text
    @staticmethod
    def _fmt_val(v):
        if v is None:
            return "."
        if isinstance(v, (list, tuple)):
            return ",".join(CallSet._fmt_val(x) for x in v)
        if isinstance(v, float):
            return repr(round(v, 4))
        return str(v)

    def record_line(self, r):
        info = []
        for k, v in r.info.items():
            info.append(k if v is True else "%s=%s" % (k, self._fmt_val(v)))
        qual = "." if r.qual is None else (str(int(r.qual)) if float(r.qual).is_integer() else repr(r.qual))
        cols = [r.contig, str(r.pos), r.id, r.ref, ",".join(r.alts) if r.alts else ".", qual,
                ";".join(r.filt) if r.filt else ".", ";".join(info) if info else "."]
        if self.samples and r.no_gt and not r.extra_fmt:
            # no FORMAT field at all: the FORMAT column and every sample column are '.'
            cols.append(".")
            cols += ["."] * len(r.gts)
        elif self.samples:
            keys = ([] if r.no_gt else ["GT"]) + list(r.extra_fmt.keys())
            cols.append(":".join(keys))
            for si, g in enumerate(r.gts):
                gs = gt_str(g)
                if getattr(self, "lead_sep", 0) and len(g[0]) >= 2 and (r.pos * 31 + si) % self.lead_sep == 0:
                    # VCF 4.4 spelling: a leading separator gives the phase of the first allele (`|0|1`, `/1/1`); same genotype
                    gs = ("|" if g[1][0] else "/") + gs
                vals = ([] if r.no_gt else [gs]) + [self._fmt_val(r.extra_fmt[k][si]) for k in r.extra_fmt]
                if getattr(self, "bare_dot", 0) and not r.no_gt and all(a is None for a in g[0]) and len(g[0]) == 2 and (r.pos + si) % self.bare_dot == 0 \
                        and all(v_ == "." for v_ in vals[1:]):
                    # a sample without any value: the whole column is a single '.' (legal VCF; the genotype is missing)
                    cols.append(".")
                    continue
                # trailing missing fields may be dropped (VCF spec); do so deterministically for odd samples
                if si % 2 == 1:
                    while len(vals) > 1 and vals[-1] == ".":
                        vals.pop()
                cols.append(":".join(vals))
        return "\t".join(cols)

    def to_vcf(self):
        lines, _ = self.header_lines(bcf=False)
        lines += [self.record_line(r) for r in self.records]
        return ("\n".join(lines) + "\n").encode()

    # ------------------------------------------------------------------ BCF
    def to_bcf(self, gt_int16=False):
        """Uncompressed BCF 2.2 byte stream (header + records)."""
        lines, dict_idx = self.header_lines(bcf=True)
        text = ("\n".join(lines) + "\n").encode() + b"\0"
        out = [b"BCF\x02\x02", struct.pack("<I", len(text)), text]
        contig_idx = {name: self.contig_idx_of()[i] for i, (name, _) in enumerate(self.contigs)}
        for r in self.records:
            out.append(self._bcf_record(r, dict_idx, contig_idx, gt_int16))
        return b"".join(out)

    def bcf_records(self, gt_int16=False):
        lines, dict_idx = self.header_lines(bcf=True)
        text = ("\n".join(lines) + "\n").encode() + b"\0"
        head = b"BCF\x02\x02" + struct.pack("<I", len(text)) + text
        contig_idx = {name: self.contig_idx_of()[i] for i, (name, _) in enumerate(self.contigs)}
        return head, [self._bcf_record(r, dict_idx, contig_idx, gt_int16) for r in self.records]

    def _bcf_record(self, r, dict_idx, contig_idx, gt_int16):
        n_allele = 1 + len(r.alts)
        shared = [struct.pack("<iii", contig_idx[r.contig], r.pos - 1, len(r.ref))]
        shared.append(struct.pack("<I", 0x7F800001) if r.qual is None else struct.pack("<f", float(r.qual)))
        n_info = len(r.info)
        shared.append(struct.pack("<HH", n_info, n_allele))
        n_fmt = ((0 if r.no_gt else 1) + len(r.extra_fmt)) if self.samples else 0
        shared.append(struct.pack("<I", (n_fmt << 24) | len(self.samples)))
        shared.append(typed_string("" if r.id == "." else r.id))
        shared.append(typed_string(r.ref))
        for a in r.alts:
            shared.append(typed_string(a))
        if r.filt:
            shared.append(typed_ints([dict_idx[f] for f in r.filt]))
        else:
            shared.append(b"\x00")
        for k, v in r.info.items():
            shared.append(typed_ints([dict_idx[k]]))
            typ = self.info_defs[k][1]
            if v is True:
                shared.append(b"\x00")
            elif typ == "Integer":
                shared.append(typed_ints(v if isinstance(v, (list, tuple)) else [v]))
            elif typ == "Float":
                shared.append(typed_floats(v if isinstance(v, (list, tuple)) else [v]))
            else:
                shared.append(typed_string(self._fmt_val(v)))
        shared = b"".join(shared)
        indiv = []
        if self.samples:
            if not r.no_gt:
                indiv.append(typed_ints([dict_idx["GT"]]))
                ploidy = max(len(g[0]) for g in r.gts)
                maxallele = max([a for g in r.gts for a in g[0] if a is not None] + [0])
                wide = gt_int16 or ((maxallele + 1) << 1 | 1) > 127
                code, fmt, eov = (2, "<h", -32767) if wide else (1, "<b", -127)
                indiv.append(type_descriptor(ploidy, code))
                vals = []
                for alleles, ph in r.gts:
                    for jj, a in enumerate(alleles):
                        phased = 1 if (jj > 0 and ph[jj - 1]) else 0
                        v = (0 if a is None else (a + 1) << 1) | phased
                        vals.append(struct.pack(fmt, v))
                    for _ in range(ploidy - len(alleles)):
                        vals.append(struct.pack(fmt, eov))
                indiv.append(b"".join(vals))
            for k, per_sample in r.extra_fmt.items():
                indiv.append(typed_ints([dict_idx[k]]))
                num, typ = self.fmt_defs[k]
                if typ == "String":
                    # character vectors of equal width, NUL padded; a missing value is '.'
                    bs = [("." if v is None else str(v)).encode() for v in per_sample]
                    w_ = max(len(x) for x in bs)
                    indiv.append(type_descriptor(w_, 7))
                    indiv.append(b"".join(x + b"\0" * (w_ - len(x)) for x in bs))
                    continue
                rows = [v if isinstance(v, (list, tuple)) else [v] for v in per_sample]
                width = max(len(x) for x in rows)
                if typ == "Integer":
                    flat = [x for row in rows for x in row if x is not None]
                    code, fmt, miss, eov = int_type(flat)
                    indiv.append(type_descriptor(width, code))
                    b = []
                    for row in rows:
                        for x in row:
                            b.append(struct.pack(fmt, miss if x is None else x))
                        for _ in range(width - len(row)):
                            b.append(struct.pack(fmt, eov))
                    indiv.append(b"".join(b))
                else:  # Float
                    indiv.append(type_descriptor(width, 5))
                    b = []
                    for row in rows:
                        for x in row:
                            b.append(struct.pack("<I", 0x7F800001) if x is None else struct.pack("<f", float(x)))
                        for _ in range(width - len(row)):
                            b.append(struct.pack("<I", 0x7F800002))
                    indiv.append(b"".join(b))
        indiv = b"".join(indiv)
        return struct.pack("<II", len(shared), len(indiv)) + shared + indiv


def int_type(values):
    lo = min(values) if values else 0
    hi = max(values) if values else 0
    if -120 <= lo and hi <= 127:
        return 1, "<b", -128, -127
    if -32760 <= lo and hi <= 32767:
        return 2, "<h", -32768, -32767
    return 3, "<i", -2147483648, -2147483647


def type_descriptor(n, code):
    if n < 15:
        return bytes([(n << 4) | code])
    return bytes([0xF0 | code]) + typed_ints([n])


def typed_ints(values):
    code, fmt, _, _ = int_type(values)
    return type_descriptor(len(values), code) + b"".join(struct.pack(fmt, v) for v in values)


def typed_floats(values):
    return type_descriptor(len(values), 5) + b"".join(struct.pack("<f", float(v)) for v in values)


def typed_string(s):
    b = s.encode()
    return type_descriptor(len(b), 7) + b


# ---------------------------------------------------------------------- BGZF
BGZF_EOF = bytes.fromhex("1f8b08040000000000ff0600424302001b0003000000000000000000")


def bgzf_block(data, level=6, mtime=0, xfl=0, os_=0xFF):
    """One BGZF block. MTIME / XFL / OS are free per RFC 1952 and the SAM spec (bgzip writes 0 / 0 / 0xff)."""
    assert len(data) <= 65280
    if level == 0:
        # stored deflate block
        comp = b"\x01" + struct.pack("<HH", len(data), len(data) ^ 0xFFFF) + data
    else:
        c = zlib.compressobj(level, zlib.DEFLATED, -15)
        comp = c.compress(data) + c.flush()
    bsize = len(comp) + 25
    assert bsize < 65536
    head = b"\x1f\x8b\x08\x04" + struct.pack("<IBB", mtime, xfl, os_) + b"\x06\x00BC\x02\x00" + struct.pack("<H", bsize)
    return head + comp + struct.pack("<II", zlib.crc32(data) & 0xFFFFFFFF, len(data))


def bgzf(data, cuts=None, level=6, empty_blocks=(), eof_markers=1, header_rng=None):
    """BGZF-compress `data`. cuts: sorted offsets at which a new block starts (besides 0).
    empty_blocks: indices (in block order) before which an empty block is inserted."""
    cuts = sorted(set(c for c in (cuts or []) if 0 < c < len(data)))
    bounds = [0] + cuts + [len(data)]
    pieces = []
    for a, b in zip(bounds, bounds[1:]):
        # respect the 64 KiB limit
        while b - a > 65280:
            pieces.append(data[a:a + 65280])
            a += 65280
        pieces.append(data[a:b])
    if not data:
        pieces = []
    out = []
    for i, p in enumerate(pieces):
        if i in empty_blocks:
            out.append(bgzf_block(b"", level if level else 6))
        if header_rng is not None:
            out.append(bgzf_block(p, level, mtime=header_rng.choice([0, 1, 1700000000, 0xFFFFFFFF]), xfl=header_rng.choice([0, 2, 4]), os_=header_rng.choice([0xFF, 3, 0, 7])))
        else:
            out.append(bgzf_block(p, level))
    out.append(BGZF_EOF * eof_markers)
    return b"".join(out)


def record_cuts_vcf(vcf_bytes):
    """Offsets of line starts (one line per block layout)."""
    cuts, off = [], 0
    for line in vcf_bytes.split(b"\n")[:-1]:
        off += len(line) + 1
        cuts.append(off)
    return cuts[:-1]


def layouts(data, unit_cuts, rng, kinds=None):
    """A few named BGZF layouts of the same payload."""
    out = {}
    kinds = kinds or ["single", "unit", "random", "midrecord", "stored", "empties", "double_eof"]
    for k in kinds:
        if k == "single":
            out[k] = bgzf(data)
        elif k == "unit":
            out[k] = bgzf(data, unit_cuts)
        elif k == "random":
            n = rng.randint(1, 12)
            out[k] = bgzf(data, [rng.randrange(1, max(2, len(data))) for _ in range(n)])
        elif k == "midrecord":
            cuts = [c + rng.randint(1, 9) for c in unit_cuts]
            out[k] = bgzf(data, cuts)
        elif k == "stored":
            out[k] = bgzf(data, unit_cuts[::3], level=0)
        elif k == "empties":
            nb = len(unit_cuts[::2]) + 1
            out[k] = bgzf(data, unit_cuts[::2], empty_blocks=set(rng.sample(range(nb), min(nb, 3))))
        elif k == "double_eof":
            out[k] = bgzf(data, unit_cuts[::4], eof_markers=2)
        elif k == "no_eof":
            # no end-of-file marker block at all (a stream that was cut at a block boundary by design, e.g. `bgzip -c` output
            # concatenated by hand): every data block is complete
            out[k] = bgzf(data, unit_cuts[::3], eof_markers=0)
        elif k == "stored_eof":
            # the final empty block written as a STORED deflate block (legal BGZF, not byte-identical to htslib's 28-byte marker)
            out[k] = bgzf(data, unit_cuts[::2], eof_markers=0) + bgzf_block(b"", 0)
        elif k == "tiny":
            out[k] = bgzf(data, list(range(7, len(data), 7)))
        elif k == "tinyfirst":
            # the first data block holds only 1 or 2 payload bytes
            out[k] = bgzf(data, [rng.choice([1, 2])] + unit_cuts[::3])
        elif k == "odd_header":
            # gzip member headers with non-default MTIME / XFL / OS bytes (free fields), several blocks
            out[k] = bgzf(data, unit_cuts[::2] or [max(1, len(data) // 2)], header_rng=rng)
    return out
