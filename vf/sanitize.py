"""Sanitizer sub-monitors shared by several checks: AddressSanitizer binary, Miri over the harness.

A sanitizer that cannot be built or run is reported as `inconclusive` for that sub-monitor only.
"""
import json, os, subprocess, time
from concurrent.futures import ThreadPoolExecutor
from . import build, cli
from .common import BUILD, VERIF, NCPU, panic_sig


def asan_pass(total, cases, label, prop):
    """cases: list of (argv, stdin bytes or None). Returns the evidence dict for this sub-monitor."""
    try:
        exe = build.cli("asan")
    except build.BuildError as e:
        return {"inconclusive": "ASan build failed: %s" % str(e)[-300:]}
    env = {"ASAN_OPTIONS": "halt_on_error=1:abort_on_error=0:detect_leaks=0:exitcode=77:allocator_may_return_null=1:max_allocation_size_mb=2048"}
    t0 = time.time()

    def one(c):
        argv, inp = c
        return cli.sfs(argv, stdin=inp, exe=exe, env=env, timeout=120)
    with ThreadPoolExecutor(max_workers=NCPU) as ex:
        runs = list(ex.map(one, cases))
    reports = panics = timeouts = 0
    for (argv, inp), r in zip(cases, runs):
        if r.timed_out:
            timeouts += 1
            continue
        if b"ERROR: AddressSanitizer" in r.err or r.rc == 77:
            if b"requested allocation size" in r.err or b"allocation-size-too-big" in r.err or b"out of memory" in r.err.lower():
                continue        # the allocator limit of the sanitizer run, not a memory error
            reports += 1
            first = [l for l in r.err.decode("utf-8", "replace").splitlines() if "ERROR: AddressSanitizer" in l]
            total.viol("%s:asan:%s" % (prop, (first[0].split("ERROR: AddressSanitizer:")[1].split()[0] if first else "report")),
                       "[ASan %s %r] %s" % (label, argv, r.err.decode("utf-8", "replace")[:800]),
                       {"level": "asan", "argv": argv, "input_hex": (inp or b"").hex()[:20000]})
        elif r.panicked:
            panics += 1
    total.counts["asan_runs_" + label] = len(runs)
    return {"runs": len(runs), "reports": reports, "panics_seen_(classified_by_the_main_monitor)": panics, "timeouts": timeouts, "wall_s": round(time.time() - t0, 1)}


def run_miri(reqs, nseeds=1, timeout=3000, tag="m"):
    """Run the harness under Miri (optionally with many scheduler seeds); returns parsed stdout lines."""
    build._link_repo()
    rundir = os.path.join(BUILD, "run", "miri-%d-%s" % (os.getpid(), tag))
    os.makedirs(rundir, exist_ok=True)
    path = os.path.join(rundir, "req.jsonl")
    with open(path, "w") as f:
        for i, r in enumerate(reqs):
            r["id"] = i
            f.write(json.dumps(r) + "\n")
    flags = "-Zmiri-disable-isolation"
    if nseeds > 1:
        flags += " -Zmiri-many-seeds=0..%d" % nseeds
    env = dict(os.environ, CARGO_NET_OFFLINE="true", MIRIFLAGS=flags)
    t0 = time.time()
    try:
        p = subprocess.run(["cargo", "+nightly", "miri", "run", "--offline", "--target-dir", os.path.join(BUILD, "harness-miri" + build.SUFFIX), "--", path],
                           cwd=os.path.join(VERIF, "harness"), env=env, stdout=subprocess.PIPE, stderr=subprocess.PIPE, timeout=timeout, stdin=subprocess.DEVNULL)
    except subprocess.TimeoutExpired as e:
        subprocess.run(["pkill", "-f", path])
        # keep what the interpreter had finished (the harness prints one line per request as it goes)
        class P: pass
        p = P(); p.stdout = e.stdout or b""; p.stderr = e.stderr or b""; p.returncode = None
        timed_out = True
    else:
        timed_out = False
    err = p.stderr.decode("utf-8", "replace")
    lines = []
    for l in p.stdout.split(b"\n"):
        if l.strip().startswith(b"{"):
            try:
                lines.append(json.loads(l))
            except ValueError:
                pass
    ub = err.count("Undefined Behavior") + err.count("Data race detected")
    if not lines and ub == 0:
        if timed_out:
            return {"inconclusive": "miri timed out after %ds with no result" % timeout}
        return {"inconclusive": "miri produced no results (rc %s): %s" % (p.returncode, err[-400:])}
    if timed_out:
        return {"lines": lines, "ub_reports": ub, "stderr_tail": err[-1500:], "wall_s": round(time.time() - t0, 1), "rc": None,
                "partial": "miri shard stopped at the %ds budget after %d of %d requests" % (timeout, len(lines), len(reqs))}
    return {"lines": lines, "ub_reports": ub, "stderr_tail": err[-1500:], "wall_s": round(time.time() - t0, 1), "rc": p.returncode}


def miri_pass(total, reqs, label, prop, expect=None, shards=NCPU):
    """Run requests under Miri in `shards` parallel processes. expect: optional list of native results to compare with."""
    t0 = time.time()
    chunks = [reqs[i::shards] for i in range(shards)]
    idx = [list(range(len(reqs)))[i::shards] for i in range(shards)]

    def one(k):
        if not chunks[k]:
            return {"lines": [], "ub_reports": 0, "stderr_tail": "", "wall_s": 0}
        return run_miri([dict(r) for r in chunks[k]], 1, tag="%s%d" % (label, k), timeout=1500)
    with ThreadPoolExecutor(max_workers=shards) as ex:
        res = list(ex.map(one, range(shards)))
    inconc = [r["inconclusive"] for r in res if "inconclusive" in r] + [r["partial"] for r in res if "partial" in r]
    if all("inconclusive" in r for r in res):
        return {"inconclusive": inconc[0]}
    ub = sum(r.get("ub_reports", 0) for r in res)
    observed = differing = 0
    for k, r in enumerate(res):
        for l in r.get("lines", []):
            observed += 1
            if expect is not None:
                gi = idx[k][l["id"]]
                a = json.dumps({x: y for x, y in l.items() if x not in ("io", "id")}, sort_keys=True)
                b = json.dumps({x: y for x, y in expect[gi].items() if x not in ("io", "id")}, sort_keys=True)
                if a != b:
                    differing += 1
    if ub:
        tail = next(r["stderr_tail"] for r in res if r.get("ub_reports"))
        total.viol("%s:miri" % prop, "[Miri %s] %d Undefined Behavior / data race report(s): %s" % (label, ub, tail[-800:]), {"level": "miri", "label": label})
    if differing:
        total.viol("%s:miri-differs" % prop, "[Miri %s] %d result(s) differ from the native run" % (label, differing), {"level": "miri", "label": label})
    total.counts["miri_requests_" + label] = observed
    return {"requests": len(reqs), "results_observed": observed, "ub_or_race_reports": ub, "differing_from_native": differing,
            "shards_inconclusive": inconc[:2], "wall_s": round(time.time() - t0, 1)}
