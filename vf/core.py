"""Monitor framework: shards, merging, three-valued verdicts, evidence, replays, known findings."""
import importlib, json, multiprocessing as mp, os, re, sys, time, traceback
from . import build
from .common import VERIF, NCPU, digest, cleanup_scratch, subseed

MAX_SAMPLES = 5
MAX_VIOL_KEPT = 40


class Shard:
    """Accumulator handed to a monitor's shard function (runs in a worker process)."""

    def __init__(self, prop, tier, seed, params=None):
        self.prop, self.tier, self.seed, self.params = prop, tier, seed, params or {}
        self.evaluations = 0
        self.nontrivial = set()
        self.samples = []
        self.counts = {}
        self.observed = {}
        self.violations = []
        self.inconclusive = []
        self.nviol = 0

    def case(self, key=None, nontrivial=False, n=1):
        self.evaluations += n
        if nontrivial:
            self.nontrivial.add(key if isinstance(key, str) and len(key) <= 16 else digest(key))

    def count(self, name, n=1):
        self.counts[name] = self.counts.get(name, 0) + n

    def observe(self, name, value):
        self.observed.setdefault(name, set()).add(value)

    def sample(self, obj, force=False):
        if len(self.samples) < MAX_SAMPLES or force:
            self.samples.append(obj)

    def viol(self, sig, what, witness):
        """sig: stable signature used for known-finding matching and de-duplication."""
        self.nviol += 1
        if len(self.violations) < MAX_VIOL_KEPT:
            if isinstance(witness, dict) and getattr(self, "usable_cpus", None):
                witness = dict(witness, usable_cpus=self.usable_cpus)      # part of the environment the violation was seen in
            self.violations.append({"sig": sig, "what": what, "witness": witness})

    def inconc(self, what):
        self.inconclusive.append(what)

    def export(self):
        return {"evaluations": self.evaluations, "nontrivial": self.nontrivial, "samples": self.samples,
                "counts": self.counts, "observed": self.observed, "violations": self.violations,
                "inconclusive": self.inconclusive, "nviol": self.nviol}


def _run_shard(args):
    modname, prop, tier, seed, params = args
    mod = importlib.import_module(modname)
    s = Shard(prop, tier, seed, params)
    orig_cpus = None
    try:
        # Environment diversity: each shard (and every process it starts) runs on its own seeded subset of the CPUs - all of them, or
        # 12, 7, 6, 5, 3, 2 - so code that sizes its work by the number of usable CPUs is seen under several counts.
        if "replay" not in params and os.environ.get("VERIF_AFFINITY", "on") != "off" and hasattr(os, "sched_getaffinity"):
            orig_cpus = os.sched_getaffinity(0)
            if len(orig_cpus) >= 8:
                import random as _random
                rr = _random.Random("%s|%s|%s|%s" % (prop, tier, seed, params.get("name")))
                k = rr.choice([len(orig_cpus), len(orig_cpus), 12, 7, 6, 5, 3, 2])
                k = min(k, len(orig_cpus))
                os.sched_setaffinity(0, rr.sample(sorted(orig_cpus), k))
                s.observe("usable_cpus", k)
                s.usable_cpus = k
        elif "replay" in params and isinstance(params["replay"], dict) and params["replay"].get("usable_cpus") and hasattr(os, "sched_getaffinity"):
            orig_cpus = os.sched_getaffinity(0)
            k = min(len(orig_cpus), int(params["replay"]["usable_cpus"]))
            os.sched_setaffinity(0, sorted(orig_cpus)[:k])
    except OSError:
        pass
    try:
        w = params.get("replay")
        if isinstance(w, dict) and isinstance(w.get("replay"), dict) and "kind" in w["replay"]:
            from . import replay as _replay
            _replay.evaluate(s, w["replay"])      # self-contained process-level replay
        elif isinstance(w, dict) and "audit" in w:
            from . import harness as _h
            q = dict(w["audit"]["request"])
            r1 = _h.run_all([dict(q)], _audit=False)[0]
            r2 = _h.run_all([dict(q)], kind="ovf", _audit=False)[0]
            if _h._norm(r1) != _h._norm(r2):
                s.viol("%s:audit:replay" % prop, "release and checked build answer the request differently: %s vs %s" % (_h._norm(r1)[:300], _h._norm(r2)[:300]), w)
            else:
                s.inconc("the single request is answered alike by both builds; the witness was seen in the order %r within one process" % w["audit"]["order"])
            s.case(key="audit-replay", nontrivial=True)
        else:
            from . import harness as _h
            from . import cli as _cli
            _h.audit_begin("%s|%s|%s|%s" % (prop, tier, seed, params.get("name")))
            _cli.MIX_CHECKED["runs"] = 0
            mod.shard(s, params)
            if _cli.MIX_CHECKED["runs"]:
                s.count("cli_runs_on_the_checked_build", _cli.MIX_CHECKED["runs"])
            if "harness" in " ".join(getattr(mod, "NEEDS", [])):
                _h.audit_check(s, prop)
    except build.BuildError as e:
        s.inconc("build: %s" % e)
    except Exception:
        s.inconc("monitor exception in shard %r: %s" % (params.get("name", params), traceback.format_exc()[-1500:]))
    finally:
        cleanup_scratch()
        if orig_cpus:
            try:
                os.sched_setaffinity(0, orig_cpus)
            except OSError:
                pass
    return s.export()


def load_findings():
    p = os.path.join(VERIF, "known_findings.json")
    if not os.path.exists(p):
        return []
    return json.load(open(p))["findings"]


def run_check(prop, tier, seed, replay=None):
    t0 = time.time()
    modname = "vf.monitors." + prop.lower()
    mod = importlib.import_module(modname)
    total = Shard(prop, tier, seed)
    # 1. build what the monitor needs, from the current tree
    try:
        for need in getattr(mod, "NEEDS", []):
            kind, _, variant = need.partition(":")
            if kind == "cli":
                build.cli(variant or "release")
                if not variant and os.environ.get("VERIF_MIX_CHECKED", "on") != "off":
                    build.cli("ovf")           # a quarter of the binary's runs go to the checked build
            elif kind == "harness":
                build.harness(variant or "release")
                if not variant and os.environ.get("VERIF_AUDIT", "on") != "off":
                    build.harness("ovf")       # the audit pass answers a sample of requests again on the checked build
            elif kind == "shim":
                build.shim()
    except build.BuildError as e:
        print("INCONCLUSIVE property=%s build failed: %s" % (prop, str(e)[:2000]))
        return 2
    # 2. plan + run shards
    if replay:
        case = json.load(open(replay))
        plans = [{"name": "replay", "replay": case["witness"]}]
    else:
        plans = mod.plan(tier, seed)
    args = [(modname, prop, tier, seed, p) for p in plans]
    jobs = min(NCPU, max(1, len(args)))
    if jobs == 1 or os.environ.get("VERIF_SERIAL"):
        results = [_run_shard(a) for a in args]
    else:
        # ProcessPoolExecutor (not mp.Pool): if a worker is killed (OOM, stray signal) the run ends as INCONCLUSIVE instead of hanging
        from concurrent.futures import ProcessPoolExecutor
        from concurrent.futures.process import BrokenProcessPool
        results = []
        try:
            with ProcessPoolExecutor(max_workers=jobs, mp_context=mp.get_context("fork")) as ex:
                results = list(ex.map(_run_shard, args, chunksize=1))
        except BrokenProcessPool:
            print("INCONCLUSIVE property=%s a worker process of the monitor died (killed / out of memory); nothing is concluded from this run" % prop)
            return 2
    for r in results:
        total.evaluations += r["evaluations"]
        total.nontrivial |= r["nontrivial"]
        for s in r["samples"]:
            if len(total.samples) < MAX_SAMPLES:
                total.samples.append(s)
        for k, v in r["counts"].items():
            total.counts[k] = total.counts.get(k, 0) + v
        for k, v in r["observed"].items():
            total.observed.setdefault(k, set()).update(v)
        total.violations.extend(r["violations"])
        total.inconclusive.extend(r["inconclusive"])
        total.nviol += r["nviol"]
    # 3. optional sequential post-pass (sanitizer sub-monitors etc.)
    extra = {}
    if hasattr(mod, "post") and not replay:
        try:
            extra = mod.post(total, tier, seed) or {}
        except build.BuildError as e:
            total.inconc("post build: %s" % str(e)[:500])
        except Exception:
            total.inconc("post exception: %s" % traceback.format_exc()[-1500:])
    cleanup_scratch()
    # 4. verdict
    findings = [f for f in load_findings() if f["property"] == prop]
    open_f = [f for f in findings if f.get("status") == "open"]
    known_hits, fresh = {}, []
    for v in total.violations:
        hit = next((f for f in open_f if re.fullmatch(f["sig"], v["sig"])), None)
        if hit:
            known_hits.setdefault(hit["id"], {"finding": hit, "n": 0})["n"] += 1
        else:
            fresh.append(v)
    floors = getattr(mod, "FLOORS", {})
    min_eval = floors.get(tier, {}).get("evaluations", 1)
    min_nt = max(2, floors.get(tier, {}).get("distinct_nontrivial", 2))
    low = []
    if not replay:
        if total.evaluations < min_eval:
            low.append("evaluations %d < floor %d" % (total.evaluations, min_eval))
        if len(total.nontrivial) < min_nt:
            low.append("distinct_nontrivial %d < floor %d" % (len(total.nontrivial), min_nt))
        for name, floor in floors.get(tier, {}).get("counts", {}).items():
            if total.counts.get(name, 0) < floor:
                low.append("sub-monitor %s observed %d < floor %d" % (name, total.counts.get(name, 0), floor))
    wall = time.time() - t0
    # 5. evidence
    observed = {}
    for k, v in total.observed.items():
        vs = sorted(v, key=lambda x: (str(type(x)), x))
        observed[k] = {"distinct": len(vs), "values": vs if len(vs) <= 40 else vs[:20] + ["..."] + vs[-10:]}
    if not total.samples:
        # a monitor's own sample hooks may all have been skipped (e.g. when every shard reported violations early)
        total.samples.append({"note": "no per-case sample was recorded by the monitor on this run", "sub_monitor_counts": dict(sorted(total.counts.items())[:12]),
                              "first_violation": (total.violations[0]["what"][:300] if total.violations else None)})
    cov = {
        "evaluations": total.evaluations,
        "distinct_nontrivial": len(total.nontrivial),
        "rule": getattr(mod, "RULE", ""),
        "samples": total.samples,
        "sub_monitors": dict(sorted(total.counts.items())),
        "observed": observed,
        "known_findings_hit": [{"id": k, "occurrences": h["n"], "what": h["finding"]["what"]} for k, h in known_hits.items()],
        "inconclusive": total.inconclusive[:20],
        "violation_signatures": sorted({v["sig"] for v in fresh})[:20],
    }
    if getattr(mod, "EXHAUSTIVE", {}).get(tier):
        cov["exhaustive"] = True
    cov.update(extra)
    ev = {"property_id": prop, "tier": tier, "seed": seed, "level": mod.LEVEL, "coverage": cov,
          "assumptions": getattr(mod, "ASSUMPTIONS", []), "wall_s": round(wall, 2), "violations": len(fresh) if fresh else 0}
    if not replay:
        write_evidence(prop, ev)
    # 6. report
    print("[%s %s seed=%d] evaluations=%d distinct_nontrivial=%d violations=%d(+%d known) inconclusive=%d wall=%.1fs" % (
        prop, tier, seed, total.evaluations, len(total.nontrivial), len(fresh), sum(h["n"] for h in known_hits.values()),
        len(total.inconclusive), wall))
    for k, c in sorted(total.counts.items()):
        print("    %-44s %d" % (k, c))
    for k, h in known_hits.items():
        print("KNOWN-FINDING: property=%s %s [%s, %d occurrence(s)]" % (prop, h["finding"]["what"], k, h["n"]))
    for msg in total.inconclusive[:10]:
        print("    inconclusive: %s" % msg.strip().replace("\n", " | ")[-400:])
    if fresh:
        os.makedirs(os.path.join(OUT, "replays"), exist_ok=True)
        seen = set()
        n = 0
        for v in fresh:
            if v["sig"] in seen:
                continue
            seen.add(v["sig"])
            n += 1
            if n > 10:
                break
            path = os.path.join(OUT, "replays", "%s-%d-%d.json" % (prop, seed, n))
            if replay:
                path = replay
            else:
                with open(path, "w") as f:
                    json.dump({"property": prop, "tier": tier, "seed": seed, "sig": v["sig"], "what": v["what"],
                               "witness": v["witness"]}, f, indent=1, default=str)
            print("    %s" % v["what"][:700])
            print("VIOLATION property=%s replay=%s" % (prop, path))
        return 1
    broken = [m for m in total.inconclusive if m.startswith(("monitor exception", "post exception", "build", "post build"))]
    if broken:
        low.append("%d shard(s) of the monitor did not complete" % len(broken))
    if low:
        print("INCONCLUSIVE property=%s %s" % (prop, "; ".join(low)))
        return 2
    return 0


OUT = os.environ.get("VERIF_OUT_DIR", VERIF)     # evidence/ and replays/ live here (redirected for runs against scratch trees)


def write_evidence(prop, ev):
    os.makedirs(os.path.join(OUT, "evidence"), exist_ok=True)
    path = os.path.join(OUT, "evidence", prop + ".json")
    try:
        import jsonschema
        schema = json.load(open(os.path.join(VERIF, "schemas", "EVIDENCE.schema.json")))
        ev = json.loads(json.dumps(ev, default=str))
        jsonschema.validate(ev, schema)
    except ImportError:
        pass
    except Exception as e:  # schema problem: keep the file valid rather than losing the run
        print("    evidence did not validate (%s); writing minimal coverage" % str(e)[:300])
        c = ev["coverage"]
        ev["coverage"] = {"evaluations": max(1, c.get("evaluations", 0)), "distinct_nontrivial": c.get("distinct_nontrivial", 0),
                          "rule": c.get("rule", ""), "samples": c.get("samples") or ["<none>"], "note": "validation fallback"}
    tmp = path + ".tmp%d" % os.getpid()
    with open(tmp, "w") as f:
        json.dump(ev, f, indent=1, default=str)
    os.replace(tmp, path)


def main(argv):
    if len(argv) < 2:
        print("usage: check <ID> <quick|thorough> | check <ID> --replay <path>")
        return 64
    prop = argv[0].upper()
    seed = int(os.environ.get("VERIF_SEED", "1"))
    if argv[1] == "--replay":
        return run_check(prop, os.environ.get("VERIF_TIER", "quick"), seed, replay=argv[2])
    tier = argv[1]
    if os.environ.get("VERIF_TIER") in ("quick", "thorough") and tier not in ("quick", "thorough"):
        tier = os.environ["VERIF_TIER"]
    return run_check(prop, tier, seed)
