"""Generic, self-contained replay specifications for violations observed at the process boundary.

A spec embeds everything needed to re-execute the case against the current tree: argv (scratch files replaced
by placeholders whose contents are embedded), stdin bytes, extra environment, and the predicate that failed.
`./check <ID> --replay <file>` evaluates the predicate again: exit 1 if it still fails, 0 if it now holds.
"""
import base64, os
from . import cli
from .common import BUILD, scratch_dir

MAX_EMBED = 400000


def b64(b):
    return base64.b64encode(b or b"").decode()


def run_spec(r):
    """Portable description of a cli.Run."""
    argv, files = [], {}
    for a in r.argv:
        a = str(a)
        if a.startswith(os.path.join(BUILD, "run")) and os.path.isfile(a):
            key = "@F%d" % len(files)
            try:
                files[key] = b64(open(a, "rb").read()[:MAX_EMBED])
            except OSError:
                files[key] = ""
            argv.append(key)
        else:
            argv.append(a)
    env = {k: v for k, v in (r.env or {}).items() if k not in ("LD_PRELOAD", "FAILIO_LOG")}
    return {"argv": argv, "files": files, "stdin_b64": b64((r.stdin or b"")[:MAX_EMBED]) if r.stdin is not None else None,
            "env": env, "shim": bool((r.env or {}).get("LD_PRELOAD")), "binary": r.kind}


def exact(r, expected_stdout, rc=0):
    return {"kind": "exact", "run": run_spec(r), "stdout_b64": b64(expected_stdout), "rc": rc}


def reject(r, site=None):
    return {"kind": "reject", "run": run_spec(r), "site": site}


def same(a, b):
    return {"kind": "same", "a": run_spec(a), "b": run_spec(b)}


def pipeline_same(a_runs, b_runs):
    return {"kind": "pipeline_same", "a": [run_spec(r) for r in a_runs], "b": [run_spec(r) for r in b_runs]}


def exit_status(r, must_fail):
    return {"kind": "exit_status", "run": run_spec(r), "must_fail": must_fail}


def _execute(spec, stdin_override=None):
    from . import build
    argv = []
    for a in spec["argv"]:
        if a in spec.get("files", {}):
            p = os.path.join(scratch_dir(), "replay-%s" % a[1:])
            with open(p, "wb") as f:
                f.write(base64.b64decode(spec["files"][a]))
            argv.append(p)
        else:
            argv.append(a)
    env = dict(spec.get("env") or {})
    if spec.get("shim"):
        env["LD_PRELOAD"] = build.shim()
    stdin = stdin_override if stdin_override is not None else (base64.b64decode(spec["stdin_b64"]) if spec.get("stdin_b64") is not None else None)
    return cli.sfs(argv, stdin=stdin, env=env, kind=spec.get("binary", "release"), timeout=120)


def _pipe(specs):
    data, r = None, None
    for i, sp in enumerate(specs):
        r = _execute(sp, stdin_override=None if i == 0 else data)
        data = r.out
    return r


def evaluate(S, spec):
    """Re-run and re-evaluate; records a violation on S if the predicate still fails."""
    kind = spec["kind"]
    S.case(key="replay", nontrivial=True)
    if kind == "exact":
        r = _execute(spec["run"])
        want = base64.b64decode(spec["stdout_b64"])
        if r.rc != spec.get("rc", 0) or r.out != want:
            S.viol("replay:exact", "replayed: rc %s stdout %r, expected rc %s stdout %r (stderr %r)" % (r.rc, r.out[:200], spec.get("rc", 0), want[:200], r.err[:200]), spec)
        else:
            print("    replay: predicate holds now (rc %s, stdout as expected)" % r.rc)
    elif kind == "reject":
        r = _execute(spec["run"])
        bad = r.panicked or r.signal or r.rc == 0 or r.out or not r.err.strip() or (spec.get("site") and spec["site"].encode() not in r.err)
        if bad:
            S.viol("replay:reject", "replayed: rc %s stdout %r stderr %r - must fail with empty stdout and a diagnostic%s" % (
                r.rc, r.out[:150], r.err[:250], " naming " + spec["site"] if spec.get("site") else ""), spec)
        else:
            print("    replay: input is rejected now (rc %s, %r)" % (r.rc, r.err[:120]))
    elif kind == "exit_status":
        r = _execute(spec["run"])
        failed = r.rc != 0
        if failed != spec["must_fail"] or r.panicked:
            S.viol("replay:exit_status", "replayed: rc %s stderr %r, expected %s" % (r.rc, r.err[:200], "failure" if spec["must_fail"] else "success"), spec)
        else:
            print("    replay: exit status as required now (rc %s)" % r.rc)
    elif kind == "same":
        a, b = _execute(spec["a"]), _execute(spec["b"])
        if (a.rc, a.out) != (b.rc, b.out):
            S.viol("replay:same", "replayed: the two runs still differ: rc %s %r (stderr %r) vs rc %s %r (stderr %r)" % (a.rc, a.out[:150], a.err[:150], b.rc, b.out[:150], b.err[:150]), spec)
        else:
            print("    replay: the two runs agree now (rc %s)" % a.rc)
    elif kind == "pipeline_same":
        a, b = _pipe(spec["a"]), _pipe(spec["b"])
        if (a.rc, a.out) != (b.rc, b.out):
            S.viol("replay:pipeline_same", "replayed: the two pipelines still differ: rc %s %r vs rc %s %r" % (a.rc, a.out[-150:], b.rc, b.out[-150:]), spec)
        else:
            print("    replay: the two pipelines agree now")
    else:
        S.inconc("unknown replay kind %r" % kind)
