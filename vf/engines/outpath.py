"""`-o PATH` in every state a path can be in: absent, empty, holding an earlier LONGER result, holding longer garbage, or being the
input file itself. Whatever the state, a successful run must leave exactly the bytes the same command writes to a pipe."""
import os
from .. import cli
from . import create as E

STATES = ["absent", "empty", "longer-earlier-output", "longer-garbage", "in-place"]


def run_to_path(rng, args, inp, state=None, kind="release"):
    """Run `sfs args -o PATH` (input `inp` on stdin, or as the path itself for 'in-place').
    Returns (run, bytes found at PATH afterwards or None, state, stale bytes)."""
    state = state or rng.choice(STATES)
    stale = b""
    if state == "longer-earlier-output":
        ref = cli.sfs(args, stdin=inp, kind=kind)
        stale = (ref.out if ref.rc == 0 and ref.out else inp) * 2 + b"0.125 " * 40
    elif state == "longer-garbage":
        stale = bytes(rng.randrange(256) for _ in range(257)) * (3 + len(inp) // 64)
    elif state == "in-place":
        stale = inp
    # the file NAME says nothing about the format: conventional, misleading and no extensions
    out = E.tmpfile(stale, rng.choice([".out", ".npy", ".sfs", ".txt", ".NPY", ".npy.txt", ""]))
    if state == "absent":
        os.unlink(out)
    nbs = []
    for nb in neighbours(out):
        if not os.path.exists(nb):
            content = ("neighbour of %s\n" % os.path.basename(out)).encode() * 3
            with open(nb, "wb") as f_:
                f_.write(content)
            nbs.append((nb, content))
    run_to_path.last_neighbours = nbs
    if state == "in-place":
        r = cli.sfs(list(args) + ["-o", out, out], kind=kind)
    else:
        r = cli.sfs(list(args) + ["-o", out], stdin=inp, kind=kind)
    found = open(out, "rb").read() if os.path.exists(out) else None
    return r, found, state, stale


def neighbours(out):
    """Files that live next to an output file and must survive its being written: same stem with other extensions, editor leftovers."""
    d, name = os.path.split(out)
    stem = name.rsplit(".", 1)[0] if "." in name.strip(".") else name
    names = {stem + ".tmp", name + ".tmp", stem + ".bak", name + "~", "." + name + ".swp", stem + ".partial", stem}
    names.discard(name)
    return [os.path.join(d, n_) for n_ in sorted(names)]


def check_concurrent_siblings(S, sig, tag, rng, args, inp):
    """Two invocations at the same time (a parallel make), writing outputs that share a stem and differ in the extension:
    each file must hold what its command writes to a pipe."""
    import threading
    base = E.tmpfile(b"", ".stem")
    os.unlink(base)
    outs = [base[:-5] + ext for ext in rng.sample([".sfs", ".npy", ".txt", ".out"], 2)]
    runs = [None, None]

    def go(k):
        runs[k] = cli.sfs(list(args) + ["-o", outs[k]], stdin=inp)
    ths = [threading.Thread(target=go, args=(k,)) for k in (0, 1)]
    for t in ths:
        t.start()
    for t in ths:
        t.join()
    ref = cli.sfs(args, stdin=inp)
    S.count("output_path_concurrent_pairs")
    for k in (0, 1):
        found = open(outs[k], "rb").read() if os.path.exists(outs[k]) else None
        if runs[k].rc != ref.rc or (ref.rc == 0 and found != ref.out):
            S.viol(sig, "[%s: two invocations at once writing %s and %s] %s: rc %s stderr %r, the file holds %s bytes, a pipe receives %d" % (
                tag, os.path.basename(outs[0]), os.path.basename(outs[1]), os.path.basename(outs[k]), runs[k].rc, runs[k].err[:160],
                "no" if found is None else len(found), len(ref.out)), {"level": "C", "argv": runs[k].argv, "input_b64": E.b64(inp[:100000]), "concurrent_outputs": outs})
            break


def check_file_equals_pipe(S, sig, tag, rng, args, inp, state=None, wit=None):
    """The oracle: same command to a pipe. Reading and writing one path in one invocation is not promised to work, so a FAILED
    in-place run is not judged; a successful one must have written the right bytes."""
    if rng.random() < 0.2:
        check_concurrent_siblings(S, sig, tag, rng, args, inp)
    r, found, state, stale = run_to_path(rng, args, inp, state)
    ref = cli.sfs(args, stdin=inp)
    S.count("output_path_runs")
    S.observe("output_path_state", state)
    # writing FILE touches FILE only: neighbours with the same stem (x.tmp, x.bak, x~, .x.swp, ...) keep their content
    for nb, content in getattr(run_to_path, "last_neighbours", []):
        now = open(nb, "rb").read() if os.path.exists(nb) else None
        if now != content:
            S.viol(sig, "[%s: %s -o %s] the neighbouring file %s was %s" % (tag, " ".join(map(str, args)), os.path.basename(r.argv[-1] if state != "in-place" else r.argv[-2]),
                   os.path.basename(nb), "removed" if now is None else "overwritten (%d bytes now)" % len(now)), dict(wit or {}, level="C", argv=r.argv, path_state=state))
            break
    if state == "in-place" and r.rc != 0:
        return r, found
    if r.rc != ref.rc or (r.rc == 0 and found != ref.out):
        w = dict(wit or {}, level="C", argv=r.argv, path_state=state, input_b64=E.b64(inp[:200000]), stale_b64=E.b64(stale[:4000]), run=r.brief())
        S.viol(sig, "[%s: %s -o FILE, path %s] rc %s (to a pipe: rc %s); the file holds %s bytes ...%r, the pipe received %d bytes ...%r" % (
            tag, " ".join(map(str, args)), state, r.rc, ref.rc, "no" if found is None else len(found), (found or b"")[-50:], len(ref.out), ref.out[-50:]), w)
    return r, found
