"""`-o PATH` in every state a path can be in: absent, empty, holding an earlier LONGER result, holding longer garbage, or being the
input file itself. Whatever the state, a successful run must leave exactly the bytes the same command writes to a pipe."""
import os
from .. import cli
from . import create as E

STATES = ["absent", "empty", "longer-earlier-output", "longer-garbage", "in-place"]


def run_to_path(rng, args, inp, state=None, kind="release"):
    """Run `sfs args -o PATH` (input `inp` on stdin, or as the path itself for 'in-place').
    Returns (run, bytes found at PATH afterwards or None, state, stale bytes)."""
    state = state or rng.choice(STATES)
    stale = b""
    if state == "longer-earlier-output":
        ref = cli.sfs(args, stdin=inp, kind=kind)
        stale = (ref.out if ref.rc == 0 and ref.out else inp) * 2 + b"0.125 " * 40
    elif state == "longer-garbage":
        stale = bytes(rng.randrange(256) for _ in range(257)) * (3 + len(inp) // 64)
    elif state == "in-place":
        stale = inp
    # the file NAME says nothing about the format: conventional, misleading and no extensions
    out = E.tmpfile(stale, rng.choice([".out", ".npy", ".sfs", ".txt", ".NPY", ".npy.txt", ""]))
    if state == "absent":
        os.unlink(out)
    if state == "in-place":
        r = cli.sfs(list(args) + ["-o", out, out], kind=kind)
    else:
        r = cli.sfs(list(args) + ["-o", out], stdin=inp, kind=kind)
    found = open(out, "rb").read() if os.path.exists(out) else None
    return r, found, state, stale


def check_file_equals_pipe(S, sig, tag, rng, args, inp, state=None, wit=None):
    """The oracle: same command to a pipe. Reading and writing one path in one invocation is not promised to work, so a FAILED
    in-place run is not judged; a successful one must have written the right bytes."""
    r, found, state, stale = run_to_path(rng, args, inp, state)
    ref = cli.sfs(args, stdin=inp)
    S.count("output_path_runs")
    S.observe("output_path_state", state)
    if state == "in-place" and r.rc != 0:
        return r, found
    if r.rc != ref.rc or (r.rc == 0 and found != ref.out):
        w = dict(wit or {}, level="C", argv=r.argv, path_state=state, input_b64=E.b64(inp[:200000]), stale_b64=E.b64(stale[:4000]), run=r.brief())
        S.viol(sig, "[%s: %s -o FILE, path %s] rc %s (to a pipe: rc %s); the file holds %s bytes ...%r, the pipe received %d bytes ...%r" % (
            tag, " ".join(map(str, args)), state, r.rc, ref.rc, "no" if found is None else len(found), (found or b"")[-50:], len(ref.out), ref.out[-50:]), w)
    return r, found
