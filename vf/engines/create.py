"""Shared drivers for everything that observes `create`: L1 (in-memory genotype reader), L2 (real
format detection + noodles parse over a planned BufRead, via the `verif` hook) and C (the binary)."""
import base64, os, re
from fractions import Fraction
from .. import cli, harness
from ..common import scratch_dir, h2f
from ..gen import vcfgen
from ..oracle.callset import classify

CONTAINERS = ("vcf", "vcf.gz", "bcf", "rawbcf")


def encode(cs, container, rng=None, layout=None):
    if container == "vcf":
        return cs.to_vcf()
    if container == "rawbcf":
        return cs.to_bcf()
    if container == "vcf.gz":
        data = cs.to_vcf()
        unit = vcfgen.record_cuts_vcf(data)
    else:
        head, recs = cs.bcf_records()
        data = head + b"".join(recs)
        unit, off = [], len(head)
        for r in recs[:-1]:
            off += len(r)
            unit.append(off)
        unit = [len(head)] + unit if recs else []
    if layout is None:
        layout = rng.choice(["single", "unit", "random", "midrecord", "stored", "empties", "double_eof", "tinyfirst", "odd_header"]) if rng else "single"
    return vcfgen.layouts(data, unit, rng, [layout])[layout]


def codes(cs):
    out = []
    for r in cs.records:
        s = ""
        for g in r.gts:
            c = classify(g)
            s += str(c[1]) if c[0] == "geno" else {"missing": "3", "multi": "4", "ploidy": "5"}[c[0]]
        out.append(s)
    return out


def map_json(smap):
    return None if smap is None else [[s, p] for s, p in smap]


def l1_request(cs, smap, project=None, fresh=False, records=None):
    return {"op": "site_hist", "samples": cs.samples, "map": map_json(smap),
            "project": None if project is None else [m + 1 for m in project],
            "records": records if records is not None else codes(cs), "fresh": fresh}


def l2_request(data, smap, project=None, threads=1, mode="scs", chunks=None, rest=None, fail_at=None, fail_kind=None, fail_mode=None,
               compression=None, format=None):
    """compression: None (auto-detect) | 'bgzf' | 'none'; format: None (auto-detect) | 'vcf' | 'bcf' - the reader builder's explicit options."""
    r = {"op": "create", "data": data.hex(), "map": map_json(smap),
         "project": None if project is None else [m + 1 for m in project], "threads": threads, "mode": mode}
    if compression is not None:
        r["compression"] = compression
    if format is not None:
        r["format"] = format
    if chunks is not None:
        r["chunks"] = chunks
    if rest is not None:
        r["rest"] = rest
    if fail_at is not None:
        r["fail_at"] = fail_at
        r["fail_kind"] = fail_kind or "Other"
        if fail_mode:
            r["fail_mode"] = fail_mode
    return r


_fileno = [0]


def tmpfile(data, suffix=""):
    _fileno[0] += 1
    p = os.path.join(scratch_dir(), "f%d%s" % (_fileno[0], suffix))
    with open(p, "wb") as f:
        f.write(data)
    return p


def cli_create(data, smap=None, project=None, via="stdin", samples_via="arg", extra=(), kind="release",
               project_via="shape", threads=None, env=None, timeout=60):
    args = ["create"]
    if smap is not None:
        if samples_via == "arg":
            args += ["-s", ",".join(s if p is None else "%s=%s" % (s, p) for s, p in smap)]
        else:
            args += ["-S", tmpfile("".join((s if p is None else "%s\t%s" % (s, p)) + "\n" for s, p in smap).encode(), ".samples")]
    if project is not None:
        if project_via == "shape":
            args += ["--project-shape", ",".join(str(m + 1) for m in project)]
        else:
            args += ["--project-individuals", ",".join(str(m // 2) for m in project)]
    if threads is not None:
        args += ["-t", str(threads)]
    args += list(extra)
    if via == "path":
        args.append(tmpfile(data))
        return cli.sfs(args, kind=kind, env=env, timeout=timeout)
    return cli.sfs(args, stdin=data, kind=kind, env=env, timeout=timeout)


HEADER_RE = re.compile(rb"^#SHAPE=<([0-9]+(?:/[0-9]+)*)>$")


TOKEN_RE = re.compile(r"^-?(?:[0-9]+(?:\.[0-9]+)?|inf|NaN)$")


def parse_text_spectrum(out):
    """-> (shape, [value tokens as str]) or None if `out` is not a two-line text spectrum."""
    if not out.endswith(b"\n"):
        return None
    lines = out[:-1].split(b"\n")
    if len(lines) != 2:
        return None
    m = HEADER_RE.match(lines[0])
    if not m:
        return None
    shape = [int(x) for x in m.group(1).split(b"/")]
    toks = lines[1].decode("ascii", "replace").split(" ")
    if not all(TOKEN_RE.match(t) for t in toks):
        return None          # something that is not a fixed-point number / NaN / inf: not a spectrum the tool itself writes
    return shape, toks


def scs_of(res):
    """harness scs json -> (shape, [float])"""
    return res["shape"], [h2f(x) for x in res["data"]]


def b64(data):
    return base64.b64encode(data).decode()


SKIP_RE = re.compile(r"Skipping site '([^']*)'")
SUMMARY_RE = re.compile(r"Skipped (\d+)/(\d+) sites")
SAMPLE_SKIP_RE = re.compile(r"Skipping sample '([^']*)' at site '([^']*)'\. Reason: '([^']*)'")


def parse_stderr(err):
    text = err.decode("utf-8", "replace")
    skipped = SKIP_RE.findall(text)
    m = SUMMARY_RE.search(text)
    summary = (int(m.group(1)), int(m.group(2))) if m else None
    samples = SAMPLE_SKIP_RE.findall(text)
    return skipped, summary, samples
