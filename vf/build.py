"""Builds the artefacts a check needs from the CURRENT working tree of $SFS_REPO (default /repo).

Every build is incremental (cargo decides); a failing build raises BuildError, which the caller
turns into exit status 2 (INCONCLUSIVE), never into a violation.
"""
import os, subprocess, sys, fcntl
from .common import BUILD, REPO, VERIF


class BuildError(Exception):
    pass


ENV = dict(os.environ, CARGO_NET_OFFLINE="true", CARGO_TERM_COLOR="never")


def _run(cmd, env=None, cwd=None, what=""):
    r = subprocess.run(cmd, env=env or ENV, cwd=cwd, stdout=subprocess.PIPE, stderr=subprocess.STDOUT, text=True)
    if r.returncode != 0:
        raise BuildError("%s failed (%s):\n%s" % (what, " ".join(cmd), r.stdout[-3000:]))
    return r.stdout


def _link_repo():
    os.makedirs(BUILD, exist_ok=True)
    link = os.path.join(BUILD, "repo")
    try:
        if os.path.islink(link) and os.readlink(link) == REPO:
            return
        tmp = link + ".%d" % os.getpid()
        os.symlink(REPO, tmp)
        os.replace(tmp, link)
    except OSError as e:
        raise BuildError("cannot link %s -> %s: %s" % (link, REPO, e))


class _Lock:
    def __init__(self, name):
        os.makedirs(BUILD, exist_ok=True)
        self.f = open(os.path.join(BUILD, name + ".lock"), "w")

    def __enter__(self):
        fcntl.flock(self.f, fcntl.LOCK_EX)

    def __exit__(self, *a):
        fcntl.flock(self.f, fcntl.LOCK_UN)
        self.f.close()


_done = {}
# Artefacts of another tree than /repo get their own target directories: cargo's freshness test
# is mtime based and must never mistake one tree for another.
import hashlib
SUFFIX = "" if os.path.realpath(REPO) == "/repo" else "-" + hashlib.sha1(os.path.realpath(REPO).encode()).hexdigest()[:8]


def cli(kind="release"):
    """Path of the `sfs` binary built from the current tree. kind: release | ovf | asan | tsan."""
    if kind in _done:
        return _done[kind]
    tdir = os.path.join(BUILD, "cli-" + kind + SUFFIX)
    manifest = os.path.join(REPO, "Cargo.toml")
    env = dict(ENV)
    cmd = ["cargo", "build", "--release", "--offline", "-p", "sfs-cli", "--manifest-path", manifest, "--target-dir", tdir]
    out = os.path.join(tdir, "release", "sfs")
    if kind == "ovf":
        # the "checked" build: integer overflow traps everywhere; debug assertions - and with them the standard library's checks of
        # the preconditions of unsafe functions (get_unchecked, set_len, copy_nonoverlapping, unwrap_unchecked, ...) - in the sfs crates
        env["RUSTFLAGS"] = "-C overflow-checks=on"
        cmd += ["--config", "profile.release.package.sfs-core.debug-assertions=true", "--config", "profile.release.package.sfs-cli.debug-assertions=true"]
    elif kind == "asan":
        env["RUSTFLAGS"] = "-Zsanitizer=address -Cforce-frame-pointers=yes"
        cmd = ["cargo", "+nightly", "build", "--release", "--offline", "-p", "sfs-cli", "--manifest-path", manifest,
               "--target-dir", tdir, "--target", "x86_64-unknown-linux-gnu"]
        out = os.path.join(tdir, "x86_64-unknown-linux-gnu", "release", "sfs")
    elif kind == "tsan":
        env["RUSTFLAGS"] = "-Zsanitizer=thread"
        cmd = ["cargo", "+nightly", "build", "--release", "--offline", "-p", "sfs-cli", "--manifest-path", manifest,
               "--target-dir", tdir, "--target", "x86_64-unknown-linux-gnu", "-Zbuild-std"]
        out = os.path.join(tdir, "x86_64-unknown-linux-gnu", "release", "sfs")
    with _Lock("cli-" + kind):
        _run(cmd, env=env, what="build sfs (%s)" % kind)
    if not os.path.exists(out):
        raise BuildError("binary missing after build: " + out)
    _done[kind] = out
    return out


def harness(kind="release"):
    """Path of the vharness binary (kind: release | ovf)."""
    key = "h-" + kind
    if key in _done:
        return _done[key]
    tdir = os.path.join(BUILD, "harness" + SUFFIX)
    if SUFFIX:
        # another tree than /repo: private copy of the harness sources with its own `.build/repo` link
        alt = os.path.join(BUILD, "alt" + SUFFIX)
        hdir = os.path.join(alt, "harness")
        os.makedirs(os.path.join(alt, ".build"), exist_ok=True)
        _run(["rsync", "-a", "--delete", "--exclude", "target", os.path.join(VERIF, "harness") + "/", hdir + "/"], what="copy harness sources")
        link = os.path.join(alt, ".build", "repo")
        if not (os.path.islink(link) and os.readlink(link) == REPO):
            if os.path.lexists(link):
                os.unlink(link)
            os.symlink(REPO, link)
    else:
        _link_repo()
        hdir = os.path.join(VERIF, "harness")
    profile = "release" if kind == "release" else "ovf"
    cmd = ["cargo", "build", "--offline", "--profile", profile, "--target-dir", tdir]
    with _Lock("harness" + SUFFIX):
        _run(cmd, cwd=hdir, what="build harness (%s)" % kind)
    out = os.path.join(tdir, profile, "vharness")
    if not os.path.exists(out):
        raise BuildError("harness missing after build: " + out)
    _done[key] = out
    return out


def shim():
    """LD_PRELOAD fault/chunk shim, built with the system gcc."""
    if "shim" in _done:
        return _done["shim"]
    src = os.path.join(VERIF, "shim", "failio.c")
    out = os.path.join(BUILD, "failio.so")
    with _Lock("shim"):
        if not os.path.exists(out) or os.path.getmtime(out) < os.path.getmtime(src):
            _run(["gcc", "-O2", "-shared", "-fPIC", "-o", out + ".tmp", src, "-ldl", "-lpthread"], what="build shim")
            os.replace(out + ".tmp", out)
    _done["shim"] = out
    return out
