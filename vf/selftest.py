"""Setup-time self-test of the workload encoders against the repository's own fixtures."""
import os, sys
from . import build, cli
from .common import REPO
from .gen.vcfgen import CallSet, Record, parse_gt, bgzf, record_cuts_vcf


def parse_simple_vcf(text):
    samples, contigs, records = [], [], []
    for line in text.decode().splitlines():
        if line.startswith("##contig"):
            body = line[line.index("<") + 1:-1]
            kv = dict(x.split("=", 1) for x in body.split(","))
            contigs.append((kv["ID"], int(kv.get("length", 1))))
        elif line.startswith("#CHROM"):
            samples = line.split("\t")[9:]
        elif not line.startswith("#") and line:
            c = line.split("\t")
            records.append(Record(c[0], int(c[1]), [parse_gt(g.split(":")[0]) for g in c[9:]], ref=c[3],
                                  alts=[] if c[4] == "." else c[4].split(",")))
    return CallSet(samples, contigs, records)


def main():
    fx = os.path.join(REPO, "cli", "tests", "create")
    vcf = open(os.path.join(fx, "simple.vcf"), "rb").read()
    cs = parse_simple_vcf(vcf)
    ok = True
    for name, args in (("simple_1d_all", []), ("simple_2d_all", ["-S", os.path.join(fx, "simple_2d_all.samples")])):
        golden = open(os.path.join(fx, name + ".stdout"), "rb").read()
        enc = {"vcf(re-encoded)": cs.to_vcf(), "bcf(raw)": cs.to_bcf(), "bcf(bgzf)": bgzf(cs.to_bcf()),
               "vcf.gz(one line per block)": bgzf(cs.to_vcf(), record_cuts_vcf(cs.to_vcf())),
               "bcf(int16 GT, bgzf stored)": bgzf(cs.to_bcf(gt_int16=False), [40, 400], level=0)}
        for k, data in enc.items():
            r = cli.sfs(["create", "-q"] + args, stdin=data)
            if r.rc != 0 or r.out != golden:
                ok = False
                print("selftest FAILED for %s / %s: rc=%s stdout=%r stderr=%r" % (name, k, r.rc, r.out[:200], r.err[:300]))
    print("selftest: encoders %s against fixture goldens" % ("agree" if ok else "DISAGREE"))
    return 0 if ok else 1


if __name__ == "__main__":
    sys.exit(main())
