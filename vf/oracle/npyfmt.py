"""NPY format (NEP 1) checker written from the specification text, independent of numpy and of sfs."""
import ast, struct

MAGIC = b"\x93NUMPY"


class NpyError(Exception):
    pass


def parse(data, require_v1=False):
    """Returns dict(version, hlen, header_text, meta, data_offset, payload). Raises NpyError with the violated rule."""
    if data[:6] != MAGIC:
        raise NpyError("magic string is not \\x93NUMPY")
    if len(data) < 10:
        raise NpyError("file shorter than the fixed preamble")
    major, minor = data[6], data[7]
    if require_v1 and (major, minor) != (1, 0):
        raise NpyError("version is %d.%d, not 1.0" % (major, minor))
    if major == 1:
        hlen = struct.unpack("<H", data[8:10])[0]
        off = 10
    elif major in (2, 3):
        hlen = struct.unpack("<I", data[8:12])[0]
        off = 12
    else:
        raise NpyError("unknown major version %d" % major)
    if len(data) < off + hlen:
        raise NpyError("header length field exceeds the file")
    header = data[off:off + hlen]
    if (off + hlen) % 64 != 0:
        raise NpyError("data does not start at a multiple of 64 bytes (preamble+HEADER_LEN = %d)" % (off + hlen))
    if not header.endswith(b"\n"):
        raise NpyError("header is not terminated by a newline")
    try:
        text = header.decode("ascii" if major < 3 else "utf-8")
    except UnicodeDecodeError:
        raise NpyError("header is not ASCII")
    body = text[:-1]
    if body.rstrip(" ") != body.rstrip(" ").rstrip("\n") or "\n" in body:
        raise NpyError("newline inside the header / padding is not made of spaces")
    try:
        meta = ast.literal_eval(body.strip(" "))
    except Exception as e:
        raise NpyError("header is not a Python literal: %s" % e)
    if not isinstance(meta, dict) or set(meta) != {"descr", "fortran_order", "shape"}:
        raise NpyError("header dict must have exactly the keys descr, fortran_order, shape: %r" % (meta,))
    if not isinstance(meta["shape"], tuple) or not all(isinstance(x, int) and x >= 0 for x in meta["shape"]):
        raise NpyError("shape is not a tuple of non-negative ints")
    if not isinstance(meta["fortran_order"], bool):
        raise NpyError("fortran_order is not a bool")
    return {"version": (major, minor), "hlen": hlen, "header": text, "meta": meta, "data_offset": off + hlen, "payload": data[off + hlen:]}


def check_written_by_sfs(data, shape, bits):
    """All rules of property C15 for a file written by sfs: returns a list of violated rules (empty = conforms)."""
    problems = []
    try:
        p = parse(data, require_v1=True)
    except NpyError as e:
        return [str(e)]
    m = p["meta"]
    if m["descr"] != "<f8":
        problems.append("descr is %r, not '<f8'" % (m["descr"],))
    if m["fortran_order"] is not False:
        problems.append("fortran_order is not False")
    if list(m["shape"]) != list(shape):
        problems.append("shape tuple %r differs from the array shape %r" % (m["shape"], shape))
    n = 1
    for s in shape:
        n *= s
    if len(p["payload"]) != 8 * n:
        problems.append("payload has %d bytes, expected %d" % (len(p["payload"]), 8 * n))
    else:
        got = ["%016x" % struct.unpack("<Q", p["payload"][8 * i:8 * i + 8])[0] for i in range(n)]
        if got != list(bits):
            bad = [(i, g, b) for i, (g, b) in enumerate(zip(got, bits)) if g != b][:3]
            problems.append("payload doubles differ (index, written, expected): %r" % bad)
    return problems


def spell(descr, fortran, shape, variant):
    """Hand-spelled header dict literal in several valid Python spellings."""
    shp = "(%s,)" % ", ".join(map(str, shape)) if len(shape) == 1 else "(%s)" % ", ".join(map(str, shape))
    f = "True" if fortran else "False"
    if variant == "numpy":
        return "{'descr': '%s', 'fortran_order': %s, 'shape': %s, }" % (descr, f, shp)
    if variant == "double-quotes":
        return '{"descr": "%s", "fortran_order": %s, "shape": %s, }' % (descr, f, shp)
    if variant == "no-trailing-comma":
        return "{'descr': '%s', 'fortran_order': %s, 'shape': %s}" % (descr, f, shp)
    if variant == "key-order":
        return "{'shape': %s, 'fortran_order': %s, 'descr': '%s', }" % (shp, f, descr)
    if variant == "tight":
        return "{'descr':'%s','fortran_order':%s,'shape':%s,}" % (descr, f, shp.replace(", ", ","))
    if variant == "airy":
        return "{ 'descr' :  '%s' ,  'fortran_order' : %s ,   'shape' : %s  ,  }" % (descr, f, shp.replace(", ", " ,  "))
    if variant == "shape-trailing-comma":
        return "{'descr': '%s', 'fortran_order': %s, 'shape': (%s,), }" % (descr, f, ", ".join(map(str, shape)))
    if variant == "repeated-key":
        # a dict literal may name a key twice; the LAST occurrence counts (Python semantics, and what numpy's ast.literal_eval yields)
        wrong = "(%d,)" % (prod_(shape) + 3)
        return "{'shape': %s, 'descr': '|u1', 'fortran_order': %s, 'descr': '%s', 'shape': %s, }" % (wrong, f, descr, shp)
    raise ValueError(variant)


def prod_(xs):
    p = 1
    for x in xs:
        p *= x
    return p


VARIANTS = ["numpy", "double-quotes", "no-trailing-comma", "key-order", "tight", "airy", "shape-trailing-comma", "repeated-key"]


def build(header_text, payload, version=(1, 0), align=64, extra_pad=0):
    """Assemble a file the way the spec says (pad with spaces, newline, 64-byte alignment). align=1: no alignment padding
    (alignment is a recommendation to writers; numpy reads such files), extra_pad: additional spaces before the newline."""
    h = header_text.encode("utf-8" if version[0] == 3 else "ascii")
    pre = 10 if version[0] == 1 else 12
    total = pre + len(h) + 1
    pad = (align - total % align) % align + extra_pad
    h = h + b" " * pad + b"\n"
    lenf = struct.pack("<H", len(h)) if version[0] == 1 else struct.pack("<I", len(h))
    return MAGIC + bytes(version) + lenf + h + payload
