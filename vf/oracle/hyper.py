"""Exact hypergeometric pmf and the projection operator built from it (big integers / Fractions)."""
from fractions import Fraction
from math import comb
from functools import lru_cache
import itertools


@lru_cache(maxsize=200000)
def hyp(k, N, K, n):
    """P[k successes in n draws without replacement from N items of which K are successes]."""
    if k < 0 or k > n or k > K or n - k > N - K:
        return Fraction(0)
    return Fraction(comb(K, k) * comb(N - K, n - k), comb(N, n))


def hyp_float(k, N, K, n):
    return float(hyp(k, N, K, n))


def project_exact(shape, data, to):
    """Project a spectrum (row-major `data` of Fractions/ints/floats, `shape`) to shape `to`. Exact."""
    d = len(shape)
    n = [s - 1 for s in shape]
    m = [t - 1 for t in to]
    out_idx = list(itertools.product(*[range(t) for t in to]))
    out = {ix: Fraction(0) for ix in out_idx}
    for flat, k in enumerate(itertools.product(*[range(s) for s in shape])):
        x = data[flat]
        if x == 0:
            continue
        x = Fraction(x)
        per_axis = [[hyp(kp, n[j], k[j], m[j]) for kp in range(to[j])] for j in range(d)]
        for ix in out_idx:
            w = x
            for j in range(d):
                w *= per_axis[j][ix[j]]
                if w == 0:
                    break
            if w:
                out[ix] += w
    return [out[ix] for ix in out_idx]
