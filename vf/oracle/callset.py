"""Reference semantics of `sfs create`, written from the property statements (C01, C02, C08-C11).

Works on vf.gen.vcfgen.CallSet objects with plain Python integers / Fractions.
"""
from fractions import Fraction
import itertools
from .hyper import hyp


def classify(g):
    """('geno', alt_count) | ('missing',) | ('multi',) | ('ploidy',) for a genotype (alleles, phases)."""
    alleles = g[0]
    if len(alleles) != 2:
        return ("ploidy",)
    if any(a is None for a in alleles):
        return ("missing",)
    if any(a >= 2 for a in alleles):
        return ("multi",)
    return ("geno", sum(1 for a in alleles if a == 1))


def populations(sample_map):
    """Population labels in order of first appearance (None = the unnamed population)."""
    pops = []
    for _, p in sample_map:
        if p not in pops:
            pops.append(p)
    return pops


class Expected:
    __slots__ = ("shape", "cells", "skipped", "error_at", "records_read", "counted", "pops", "build_error")

    def __init__(self):
        self.shape, self.cells, self.skipped, self.error_at = None, None, [], None
        self.records_read, self.counted, self.pops, self.build_error = 0, 0, None, None


def reference_create(cs, sample_map=None, project=None):
    """sample_map: list of (sample, population-or-None) or None (= all samples, one unnamed population).
    project: list of target chromosome counts m_j (shape - 1) or None."""
    e = Expected()
    if sample_map is None:
        sample_map = [(s, None) for s in cs.samples]
    if not sample_map:
        e.build_error = "empty"
        return e
    assign = {}
    for s, p in sample_map:
        assign[s] = p
    pops = populations(sample_map)
    e.pops = pops
    for s in assign:
        if s not in cs.samples:
            e.build_error = "unknown sample"
            return e
    sizes = [sum(1 for s, p in assign.items() if p == q) for q in pops]
    if any(z == 0 for z in sizes):
        e.build_error = "conflicting"
        return e
    full = [2 * z + 1 for z in sizes]
    if project is not None:
        if len(project) != len(pops):
            e.build_error = "dimension"
            return e
        if any(m + 1 > f for m, f in zip(project, full)):
            e.build_error = "too large"
            return e
        shape = [m + 1 for m in project]
    else:
        shape = full
    e.shape = shape
    idx_list = list(itertools.product(*[range(s) for s in shape]))
    cells = {ix: (Fraction(0) if project is not None else 0) for ix in idx_list}
    col = {s: i for i, s in enumerate(cs.samples)}
    sel = [(col[s], pops.index(p)) for s, p in assign.items()]
    sel.sort()
    for r in cs.records:
        a = [0] * len(pops)
        t = [0] * len(pops)
        incomplete = False
        ploidy = False
        for ci, pj in sel:
            c = classify(r.gts[ci])
            if c[0] == "geno":
                a[pj] += c[1]
                t[pj] += 2
            elif c[0] == "ploidy":
                ploidy = True
                break
            else:
                incomplete = True
        if ploidy:
            e.error_at = (r.contig, r.pos)
            break
        e.records_read += 1
        if project is None:
            if incomplete:
                e.skipped.append((r.contig, r.pos))
            else:
                cells[tuple(a)] += 1
                e.counted += 1
        else:
            if any(tj < mj for tj, mj in zip(t, project)):
                e.skipped.append((r.contig, r.pos))
            else:
                e.counted += 1
                per_axis = [[hyp(k, t[j], a[j], project[j]) for k in range(shape[j])] for j in range(len(pops))]
                for ix in idx_list:
                    w = Fraction(1)
                    for j in range(len(pops)):
                        w *= per_axis[j][ix[j]]
                        if w == 0:
                            break
                    if w:
                        cells[ix] += w
    e.cells = [cells[ix] for ix in idx_list]
    return e
