"""Population-genetic statistics computed two independent ways:
 (a) directly from genotypes (per-site allele counts), (b) from the published estimator formulas.
Exact rationals wherever possible; square roots through float at the very end."""
import math
from fractions import Fraction


def site_counts(cs, sample_map):
    """Per record: list of (k_j, n_j) per population for COMPLETE data (n_j chromosomes)."""
    from .callset import classify, populations
    pops = populations(sample_map)
    assign = dict(sample_map)
    col = {s: i for i, s in enumerate(cs.samples)}
    out = []
    for r in cs.records:
        k = [0] * len(pops)
        n = [0] * len(pops)
        for s, q in assign.items():
            c = classify(r.gts[col[s]])
            assert c[0] == "geno", "complete data expected"
            j = pops.index(q)
            k[j] += c[1]
            n[j] += 2
        out.append(list(zip(k, n)))
    return out


def harmonic(n, p=1):
    return sum(Fraction(1, i ** p) for i in range(1, n))


def from_genotypes(sites):
    """sites: list over records of [(k_j, n_j)]. Returns dict name -> Fraction / float / None (undefined)."""
    if not sites:
        return {}
    d = len(sites[0])
    L = len(sites)
    res = {"sum": Fraction(L)}
    mono = lambda st: all(k == 0 for k, n in st) or all(k == n for k, n in st)
    res["s"] = Fraction(sum(1 for st in sites if not mono(st)))
    fr = [[Fraction(k, n) for k, n in st] for st in sites]
    if d == 1:
        n = sites[0][0][1]
        pairs = n * (n - 1) // 2
        res["pi"] = sum(Fraction(k * (n - k), pairs) for (k, _), in sites) if pairs else None
        S = res["s"]
        a1 = harmonic(n)
        res["theta"] = S / a1 if a1 else None
        res["d-tajima"] = tajima_d(res["pi"], S, n) if pairs and a1 else None
        eta = Fraction(sum(1 for (k, _), in sites if k == 1))
        res["d-fu-li"] = fu_li_d(S, eta, n)
    if d == 2:
        n1, n2 = sites[0][0][1], sites[0][1][1]
        res["f2"] = sum((p[0] - p[1]) ** 2 for p in fr) / L
        res["pi-xy"] = sum(Fraction(st[0][0] * (n2 - st[1][0]) + st[1][0] * (n1 - st[0][0]), n1 * n2) for st in sites)
        num = den = Fraction(0)
        for p in fr:
            if n1 > 1 and n2 > 1:
                num += (p[0] - p[1]) ** 2 - p[0] * (1 - p[0]) / (n1 - 1) - p[1] * (1 - p[1]) / (n2 - 1)
                den += p[0] * (1 - p[1]) + p[1] * (1 - p[0])
        res["fst"] = num / den if den else None
        if n1 == 2 and n2 == 2:
            C = [[0] * 3 for _ in range(3)]
            for st in sites:
                C[st[0][0]][st[1][0]] += 1
            r0d = C[1][1]
            res["r0"] = Fraction(C[0][2] + C[2][0], r0d) if r0d else None
            r1d = C[0][1] + C[0][2] + C[1][0] + C[1][2] + C[2][0] + C[2][1]
            res["r1"] = Fraction(C[1][1], r1d) if r1d else None
            kd = C[0][1] + C[1][0] + 2 * C[1][1] + C[1][2] + C[2][1]
            res["king"] = Fraction(C[1][1] - 2 * (C[0][2] + C[2][0]), kd) if kd else None
    if d == 3:
        res["f3"] = sum((p[0] - p[1]) * (p[0] - p[2]) for p in fr) / L
    if d == 4:
        res["f4"] = sum((p[0] - p[1]) * (p[2] - p[3]) for p in fr) / L
    return res


def tajima_d(pi, S, n):
    """Tajima (1989)."""
    if S == 0 or n < 2:
        return None
    a1, a2 = harmonic(n), harmonic(n, 2)
    b1 = Fraction(n + 1, 3 * (n - 1))
    b2 = Fraction(2 * (n * n + n + 3), 9 * n * (n - 1))
    c1 = b1 - 1 / a1
    c2 = b2 - Fraction(n + 2, 1) / (a1 * n) + a2 / a1 ** 2
    e1 = c1 / a1
    e2 = c2 / (a1 ** 2 + a2)
    var = e1 * S + e2 * S * (S - 1)
    if var <= 0:
        return None
    return float(pi - S / a1) / math.sqrt(float(var))


def fu_li_d(S, eta_e, n):
    """Fu and Li (1993) D with an outgroup: (S - a_n * eta_e) / sqrt(u_D S + v_D S^2)."""
    if S == 0 or n < 3:
        return None
    a, b = harmonic(n), harmonic(n, 2)
    c = 2 * (n * a - 2 * (n - 1)) / Fraction((n - 1) * (n - 2))
    v = 1 + a ** 2 / (b + a ** 2) * (c - Fraction(n + 1, n - 1))
    u = a - 1 - v
    var = u * S + v * S ** 2
    if var <= 0:
        return None
    return float(S - a * eta_e) / math.sqrt(float(var))


def from_spectrum_1d(counts):
    """Published estimators for a 1-D count spectrum (list of Fractions/ints, n = len-1 chromosomes)."""
    n = len(counts) - 1
    c = [Fraction(x) for x in counts]
    S = sum(c[1:n])
    res = {"sum": sum(c), "s": S}
    pairs = n * (n - 1) // 2
    a1 = harmonic(n)
    res["pi"] = sum(c[i] * i * (n - i) for i in range(1, n)) / pairs if pairs else None
    res["theta"] = S / a1 if a1 else None
    res["d-tajima"] = tajima_d(res["pi"], S, n) if pairs and a1 else None
    res["d-fu-li"] = fu_li_d(S, c[1] if n >= 1 else 0, n)
    return res


def from_spectrum_1d_float(counts):
    """The same published estimators in double precision (math.fsum for the harmonic numbers): for sample sizes where exact
    rationals are unaffordable (tens of thousands of chromosomes). Accurate to ~1e-12 relative for non-cancelling inputs."""
    n = len(counts) - 1
    S = float(sum(counts[1:n]))
    a1 = math.fsum(1.0 / i for i in range(1, n))
    a2 = math.fsum(1.0 / (i * i) for i in range(1, n))
    pairs = n * (n - 1) / 2
    pi = float(sum(Fraction(c) * i * (n - i) for i, c in enumerate(counts) if c and 0 < i < n)) / pairs
    res = {"sum": float(sum(counts)), "s": S, "pi": pi, "theta": S / a1}
    b1 = (n + 1) / (3.0 * (n - 1))
    b2 = 2.0 * (n * n + n + 3) / (9.0 * n * (n - 1))
    c1 = b1 - 1 / a1
    c2 = b2 - (n + 2) / (a1 * n) + a2 / a1 ** 2
    var = (c1 / a1) * S + (c2 / (a1 ** 2 + a2)) * S * (S - 1)
    res["d-tajima"] = (pi - S / a1) / math.sqrt(var) if S and var > 0 else None
    c = 2 * (n * a1 - 2 * (n - 1)) / ((n - 1.0) * (n - 2.0))
    v = 1 + a1 ** 2 / (a2 + a1 ** 2) * (c - (n + 1.0) / (n - 1.0))
    u = a1 - 1 - v
    var2 = u * S + v * S * S
    res["d-fu-li"] = (S - a1 * float(counts[1])) / math.sqrt(var2) if S and var2 > 0 else None
    return res
