"""Reference array operations on spectra, written from the property statements.

Data are flat row-major Python lists (ints, Fractions or floats)."""
import itertools
from fractions import Fraction


def prod(xs):
    p = 1
    for x in xs:
        p *= x
    return p


def indices(shape):
    return list(itertools.product(*[range(s) for s in shape]))


def marginalize(shape, data, remove):
    """Sum over the axes in `remove` (a set of axis numbers); remaining axes keep their order."""
    remove = set(remove)
    keep = [j for j in range(len(shape)) if j not in remove]
    out_shape = [shape[j] for j in keep]
    acc = {}
    for flat, ix in enumerate(indices(shape)):
        key = tuple(ix[j] for j in keep)
        acc[key] = acc.get(key, 0) + data[flat]
    return out_shape, [acc[k] for k in indices(out_shape)]


def marginalize_numpy(shape, data, remove):
    import numpy as np
    a = np.array(data, dtype=object).reshape(shape)
    r = a.sum(axis=tuple(sorted(set(remove))))
    return list(r.shape), list(r.reshape(-1))


def mirror(shape, data):
    ixs = indices(shape)
    pos = {ix: f for f, ix in enumerate(ixs)}
    return [data[pos[tuple(s - 1 - k for s, k in zip(shape, ix))]] for ix in ixs]


def fold(shape, data, fill):
    """s < T/2: x[k] + x[mirror k]; s == T/2: mean of the pair; s > T/2: fill."""
    ixs = indices(shape)
    pos = {ix: f for f, ix in enumerate(ixs)}
    T = sum(s - 1 for s in shape)
    out = []
    for f, ix in enumerate(ixs):
        s = sum(ix)
        m = pos[tuple(n - 1 - k for n, k in zip(shape, ix))]
        if 2 * s < T:
            out.append(data[f] + data[m])
        elif 2 * s == T:
            out.append((data[f] + data[m]) / 2 if isinstance(data[f], float) or isinstance(data[m], float)
                       else Fraction(data[f] + data[m], 2))
        else:
            out.append(fill)
    return out


def transpose(shape, data, perm):
    """Result axis j is source axis perm[j]."""
    new_shape = [shape[p] for p in perm]
    src = {ix: f for f, ix in enumerate(indices(shape))}
    out = []
    for ix in indices(new_shape):
        s = [0] * len(shape)
        for j, p in enumerate(perm):
            s[p] = ix[j]
        out.append(data[src[tuple(s)]])
    return new_shape, out
