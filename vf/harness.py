"""Driving the Rust harness: write a batch of JSON requests, get one JSON event per request."""
import json, os, subprocess
from . import build
from .common import scratch_dir

_counter = [0]


class HarnessError(Exception):
    pass


def run(requests, kind="release", timeout=600, exe=None, mem_limit=None):
    """Execute requests (list of dicts; 'id' is filled in) and return the list of result dicts."""
    exe = exe or build.harness(kind)
    for i, r in enumerate(requests):
        r["id"] = i
    _counter[0] += 1
    path = os.path.join(scratch_dir(), "req-%d.jsonl" % _counter[0])
    with open(path, "w") as f:
        for r in requests:
            f.write(json.dumps(r, separators=(",", ":")))
            f.write("\n")
    try:
        pre = None
        if mem_limit:
            def pre():
                import resource
                resource.setrlimit(resource.RLIMIT_AS, (mem_limit, mem_limit))
        p = subprocess.run([exe, path], stdin=subprocess.DEVNULL, stdout=subprocess.PIPE, stderr=subprocess.PIPE,
                           timeout=timeout, preexec_fn=pre)
    except subprocess.TimeoutExpired:
        raise HarnessError("harness timed out after %ds on %d requests" % (timeout, len(requests)))
    finally:
        try:
            os.unlink(path)
        except OSError:
            pass
    lines = p.stdout.split(b"\n")
    out = [json.loads(l) for l in lines if l.strip()]
    if len(out) != len(requests):
        # The process died (abort / stack overflow / OOM) while serving request len(out).
        return out + [{"id": len(out), "died": True, "returncode": p.returncode,
                       "stderr": p.stderr.decode("utf-8", "replace")[-2000:]}] + \
               [{"id": i, "not_run": True} for i in range(len(out) + 1, len(requests))]
    return out


# ------------------------------------------------------------------------------------------------------------------
# Audit: a sample of every shard's (request, reply) pairs is kept and, at the end of the shard, answered again
#  - by the CHECKED build of the harness (integer overflow traps; debug assertions and the standard library's precondition checks
#    of unsafe functions in the crate under test), and
#  - in OTHER ORDERS within one process (ascending and descending by request size, requests of equal size next to each other,
#    ties shuffled): whatever the library keeps between calls - caches, scratch buffers, statics - then meets a different history.
# The replies must be the same, bit for bit. This is a monitor of history- and build-independence; it needs no oracle.
AUDIT = {"on": False, "pairs": [], "seen": 0, "rng": None}
AUDIT_OPS = {"spec", "hyper", "site_hist", "create", "read_npy", "read_file"}
AUDIT_MAX = 360


def audit_begin(seed_material):
    import random
    AUDIT.update(on=os.environ.get("VERIF_AUDIT", "on") != "off", pairs=[], seen=0, rng=random.Random(seed_material))


def _audit_offer(requests, results):
    if not AUDIT["on"]:
        return
    rng = AUDIT["rng"]
    for q, r in zip(requests, results):
        if q.get("op") not in AUDIT_OPS or r is None or r.get("not_run") or r.get("died"):
            continue
        size = len(q.get("data") or "") if isinstance(q.get("data"), (str, list)) else 0
        if size > 400000 or len(q.get("records") or []) > 300 or len(q.get("q") or []) > 3000:
            continue
        AUDIT["seen"] += 1
        item = (dict(q), _norm(r))          # the reply as it is now: callers may prune their copy afterwards
        if len(AUDIT["pairs"]) < AUDIT_MAX:
            AUDIT["pairs"].append(item)
        else:
            j = rng.randrange(AUDIT["seen"])        # reservoir sampling: every offered pair is kept with equal probability
            if j < AUDIT_MAX:
                AUDIT["pairs"][j] = item


def _norm(r):
    return json.dumps({k: v for k, v in r.items() if k not in ("id", "io")}, sort_keys=True)


def audit_check(S, prop):
    """Answer the sampled requests again (checked build, two other orders) and compare. Reports through S."""
    pairs, AUDIT["pairs"], was_on = AUDIT["pairs"], [], AUDIT["on"]
    AUDIT["on"] = False
    if not was_on or not pairs:
        return
    rng = AUDIT["rng"]

    def size_key(q):
        n = 1
        for x in q.get("shape") or []:
            n *= x
        return (max(n, len(q.get("data") or "") // 16, len(q.get("samples") or [])), len(q.get("shape") or []))
    tagged = [(size_key(q), rng.random(), i) for i, (q, _) in enumerate(pairs)]
    orders = {"ascending size": [i for _, _, i in sorted(tagged)], "descending size": [i for _, _, i in sorted(tagged, reverse=True)]}
    for oname, order in orders.items():
        try:
            again = run_all([dict(pairs[i][0]) for i in order], kind="ovf", timeout=900, _audit=False)
        except HarnessError as e:
            S.inconc("audit pass (%s): %s" % (oname, e))
            continue
        for i, r2 in zip(order, again):
            q, r1 = pairs[i]
            S.count("audit_replies_compared")
            if r1 != _norm(r2):
                what = "panicked / died" if ("panic" in r2 or r2.get("died")) and '"panic"' not in r1 else "answered differently"
                brief = {k: (v if len(str(v)) < 200 else str(v)[:200] + "...") for k, v in q.items() if k != "id"}
                S.viol("%s:audit:%s:%s" % (prop, q.get("op"), "died" if what.startswith("panicked") else "differs"),
                       "[audit, %s, checked build] request %s %s than in the main run: %s vs %s" % (
                           oname, str(brief)[:300], what, _norm(r2)[:300], r1[:300]),
                       {"level": "L", "audit": {"order": oname, "request": {k: v for k, v in q.items() if k != "id"}}})
    S.observe("audit_orders", "ascending size, descending size (checked build)")


def both_builds(S, prop, requests, label):
    """Answer `requests` with the release AND the checked harness; the replies must be the same. Returns the release replies."""
    a = run_all([dict(q) for q in requests], _audit=False)
    b = run_all([dict(q) for q in requests], kind="ovf", _audit=False)
    for q, r1, r2 in zip(requests, a, b):
        S.count("both_builds_" + label)
        if _norm(r1) != _norm(r2):
            brief = {k: (v if len(str(v)) < 200 else str(v)[:200] + "...") for k, v in q.items() if k != "id"}
            S.viol("%s:builds-differ:%s" % (prop, label), "[%s] the checked build (overflow traps, unsafe-precondition checks) answers differently from the release build: %s vs %s for %s" % (
                label, _norm(r2)[:300], _norm(r1)[:300], str(brief)[:300]), {"level": "L", "audit": {"order": "single request", "request": {k: v for k, v in q.items() if k != "id"}}})
    return a


def run_all(requests, kind="release", timeout=600, mem_limit=None, _audit=True):
    """Like run(), but restarts the harness after a request that killed it, so that every request
    gets an answer (the killer gets {'died': True})."""
    results = _run_all(requests, kind, timeout, mem_limit)
    if _audit and kind == "release" and mem_limit is None:
        _audit_offer(requests, results)
    return results


def _run_all(requests, kind, timeout, mem_limit):
    results = [None] * len(requests)
    pending = list(range(len(requests)))
    while pending:
        batch = [dict(requests[i]) for i in pending]
        res = run(batch, kind=kind, timeout=timeout, mem_limit=mem_limit)
        nxt = []
        for j, r in enumerate(res):
            if r.get("not_run"):
                nxt.append(pending[j])
            else:
                results[pending[j]] = r
        pending = nxt
    return results
