"""Driving the Rust harness: write a batch of JSON requests, get one JSON event per request."""
import json, os, subprocess
from . import build
from .common import scratch_dir

_counter = [0]


class HarnessError(Exception):
    pass


def run(requests, kind="release", timeout=600, exe=None, mem_limit=None):
    """Execute requests (list of dicts; 'id' is filled in) and return the list of result dicts."""
    exe = exe or build.harness(kind)
    for i, r in enumerate(requests):
        r["id"] = i
    _counter[0] += 1
    path = os.path.join(scratch_dir(), "req-%d.jsonl" % _counter[0])
    with open(path, "w") as f:
        for r in requests:
            f.write(json.dumps(r, separators=(",", ":")))
            f.write("\n")
    try:
        pre = None
        if mem_limit:
            def pre():
                import resource
                resource.setrlimit(resource.RLIMIT_AS, (mem_limit, mem_limit))
        p = subprocess.run([exe, path], stdin=subprocess.DEVNULL, stdout=subprocess.PIPE, stderr=subprocess.PIPE,
                           timeout=timeout, preexec_fn=pre)
    except subprocess.TimeoutExpired:
        raise HarnessError("harness timed out after %ds on %d requests" % (timeout, len(requests)))
    finally:
        try:
            os.unlink(path)
        except OSError:
            pass
    lines = p.stdout.split(b"\n")
    out = [json.loads(l) for l in lines if l.strip()]
    if len(out) != len(requests):
        # The process died (abort / stack overflow / OOM) while serving request len(out).
        return out + [{"id": len(out), "died": True, "returncode": p.returncode,
                       "stderr": p.stderr.decode("utf-8", "replace")[-2000:]}] + \
               [{"id": i, "not_run": True} for i in range(len(out) + 1, len(requests))]
    return out


def run_all(requests, kind="release", timeout=600, mem_limit=None):
    """Like run(), but restarts the harness after a request that killed it, so that every request
    gets an answer (the killer gets {'died': True})."""
    results = [None] * len(requests)
    pending = list(range(len(requests)))
    while pending:
        batch = [dict(requests[i]) for i in pending]
        res = run(batch, kind=kind, timeout=timeout, mem_limit=mem_limit)
        nxt = []
        for j, r in enumerate(res):
            if r.get("not_run"):
                nxt.append(pending[j])
            else:
                results[pending[j]] = r
        pending = nxt
    return results
