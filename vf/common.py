"""Shared plumbing: paths, deterministic seeds, f64<->hex, scratch directories."""
import hashlib, os, random, shutil, struct, tempfile, time, json

VERIF = os.path.dirname(os.path.dirname(os.path.abspath(__file__)))
BUILD = os.path.join(VERIF, ".build")
REPO = os.environ.get("SFS_REPO", "/repo")
NCPU = int(os.environ.get("VERIF_JOBS", str(os.cpu_count() or 4)))

MASK = (1 << 64) - 1


def splitmix64(x):
    x = (x + 0x9E3779B97F4A7C15) & MASK
    z = x
    z = ((z ^ (z >> 30)) * 0xBF58476D1CE4E5B9) & MASK
    z = ((z ^ (z >> 27)) * 0x94D049BB133111EB) & MASK
    return (z ^ (z >> 31)) & MASK


def subseed(seed, *labels):
    """Derive an independent 64-bit seed from a parent seed and labels (ints/strings)."""
    x = splitmix64(seed & MASK)
    for lab in labels:
        if isinstance(lab, str):
            lab = int.from_bytes(hashlib.sha256(lab.encode()).digest()[:8], "little")
        x = splitmix64(x ^ (lab & MASK))
    return x


def rng_for(seed, *labels):
    return random.Random(subseed(seed, *labels))


def f2h(x):
    return "%016x" % struct.unpack("<Q", struct.pack("<d", x))[0]


def h2f(s):
    return struct.unpack("<d", struct.pack("<Q", int(s, 16)))[0]


def digest(obj):
    """Stable short digest of a JSON-able object / bytes (for distinct-case counting)."""
    if isinstance(obj, (bytes, bytearray)):
        b = bytes(obj)
    else:
        b = json.dumps(obj, sort_keys=True, default=str).encode()
    return hashlib.blake2b(b, digest_size=8).hexdigest()


_scratch = None


def scratch_dir():
    """Per-process scratch directory under /verif/.build/run (never /tmp)."""
    global _scratch
    if _scratch is None or not os.path.isdir(_scratch) or _scratch_pid != os.getpid():
        base = os.path.join(BUILD, "run")
        os.makedirs(base, exist_ok=True)
        _set_scratch(tempfile.mkdtemp(prefix="p%d-" % os.getpid(), dir=base))
    return _scratch


_scratch_pid = None


def _set_scratch(p):
    global _scratch, _scratch_pid
    _scratch = p
    _scratch_pid = os.getpid()


def cleanup_scratch():
    global _scratch
    if _scratch and _scratch_pid == os.getpid() and os.path.isdir(_scratch):
        shutil.rmtree(_scratch, ignore_errors=True)
    _scratch = None


class Deadline:
    def __init__(self, seconds):
        self.t0 = time.time()
        self.seconds = seconds

    def left(self):
        return self.seconds - (time.time() - self.t0)

    def expired(self):
        return self.left() <= 0


import re as _re
_PANIC_AT = _re.compile(r"panicked at ([^\s]+?):(\d+)(?::\d+)?")
_HARNESS_AT = _re.compile(r"@ ([^\s]+?):(\d+)\s*$")


def norm_path(path):
    """Stable form of a source path: crate-relative for registry crates, repo-relative for sfs."""
    m = _re.search(r"/registry/src/[^/]+/(.*)$", path)
    if m:
        return m.group(1)
    m = _re.search(r"/(library/.*)$", path)           # the Rust standard library (/rustc/<hash>/library/...)
    if m:
        return m.group(1)
    m = _re.search(r"(?:^|/)((?:core|cli)/src/.*)$", path)
    if m:
        return m.group(1)
    return path


def panic_sig(text):
    """Normalised '<path>:<line>' of a panic from CLI stderr ('panicked at p:l:c') or a harness record ('msg @ p:l')."""
    if isinstance(text, bytes):
        text = text.decode("utf-8", "replace")
    m = _PANIC_AT.search(text) or _HARNESS_AT.search(text.strip())
    if not m:
        return "unknown-site"
    return "%s:%s" % (norm_path(m.group(1)), m.group(2))
